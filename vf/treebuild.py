"""Turns a tree spec (vf/gen/tree.py) into maus objects and runs the real validation on it. Trees are rebuilt for every run:
validate_data_element_valuepool overwrites an unexpected entered_input in place."""

from typing import Dict, List, Optional

from vf import evaluators as E
from vf import sched
from vf.gen.tree import expr_string

from maus.models.anwendungshandbuch import AhbMetaInformation, DeepAnwendungshandbuch
from maus.models.edifact_components import DataElementFreeText, DataElementValuePool, Segment, SegmentGroup, ValuePoolEntry

from ahbicht.validation.validation import validate_deep_anwendungshandbuch


def build_data_element(d: Dict):
    if d["k"] == "F":
        return DataElementFreeText(discriminator=d["d"], ahb_expression=expr_string(d["x"]), entered_input=d["input"], data_element_id="1234")
    return DataElementValuePool(
        discriminator=d["d"],
        data_element_id="0333",
        entered_input=d["input"],
        value_pool=[ValuePoolEntry(qualifier=e["q"], meaning="m-" + e["q"], ahb_expression=expr_string(e["x"])) for e in d["entries"]],
    )


def build_segment(s: Dict) -> Segment:
    return Segment(discriminator=s["d"], ahb_expression=expr_string(s["x"]), data_elements=[build_data_element(d) for d in s["des"]], section_name="sec-" + s["d"])


def build_group(g: Dict) -> SegmentGroup:
    return SegmentGroup(discriminator=g["d"], ahb_expression=expr_string(g["x"]), segments=[build_segment(s) for s in g["segs"]], segment_groups=[build_group(x) for x in g["grps"]])


def build(spec: List[Dict]) -> DeepAnwendungshandbuch:
    return DeepAnwendungshandbuch(meta=AhbMetaInformation(pruefidentifikator="11042"), lines=[build_group(g) for g in spec])


async def validate(spec: List[Dict], world: E.World, soll: bool, scheduler: Optional[sched.Sched] = None):
    """("ok", [ValidationResultInContext]) | ("exc", exception)"""
    ahb = build(spec)

    async def go():
        E.set_world(world)
        return await validate_deep_anwendungshandbuch(ahb, soll_is_required=soll)

    return await sched.run_under(scheduler, go)


def summarise(results) -> List[tuple]:
    """(discriminator, status, possible values, format flag, format message, hints, data type) per reported node"""
    out = []
    for r in results:
        v = r.validation_result
        out.append(
            (
                r.discriminator,
                str(v.requirement_validation),
                list(getattr(v, "possible_values", None).keys()) if getattr(v, "possible_values", None) is not None else None,
                getattr(v, "format_validation_fulfilled", None),
                getattr(v, "format_error_message", None),
                v.hints,
                str(getattr(v, "data_element_data_type", None)),
            )
        )
    return out
