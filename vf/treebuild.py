"""Turns a tree spec (vf/gen/tree.py) into maus objects and runs the real validation on it. Trees are rebuilt for every run:
validate_data_element_valuepool overwrites an unexpected entered_input in place."""

from typing import Dict, List, Optional

from vf import evaluators as E
from vf import sched
from vf.gen.tree import expr_string

from maus.models.anwendungshandbuch import AhbMetaInformation, DeepAnwendungshandbuch
from maus.models.edifact_components import DataElementFreeText, DataElementValuePool, Segment, SegmentGroup, ValuePoolEntry

from ahbicht.content_evaluation.fc_evaluators import text_to_be_evaluated_by_format_constraint
from ahbicht.validation.validation import validate_deep_anwendungshandbuch


def build_data_element(d: Dict):
    if d["k"] == "F":
        extra = {}
        if d.get("vt"):
            from maus.models.edifact_components import DataElementDataType

            extra["value_type"] = DataElementDataType[d["vt"]]
        return DataElementFreeText(discriminator=None if d.get("nod") else d["d"], ahb_expression=expr_string(d["x"]), entered_input=d["input"], data_element_id="1234", **extra)
    return DataElementValuePool(
        discriminator=d["d"],
        data_element_id="0333",
        entered_input=d["input"],
        value_pool=[ValuePoolEntry(qualifier=e["q"], meaning=e.get("m", "m-" + e["q"]), ahb_expression=expr_string(e["x"])) for e in d["entries"]],
    )


def build_segment(s: Dict) -> Segment:
    return Segment(discriminator=s["d"], ahb_expression=expr_string(s["x"]), data_elements=[build_data_element(d) for d in s["des"]], section_name="sec-" + s["d"], ahb_line_index=s.get("line"))


def build_group(g: Dict) -> SegmentGroup:
    return SegmentGroup(
        discriminator=g["d"], ahb_expression=expr_string(g["x"]), segments=[build_segment(s) for s in g["segs"]], segment_groups=[build_group(x) for x in g["grps"]], ahb_line_index=g.get("line")
    )


def build(spec: List[Dict]) -> DeepAnwendungshandbuch:
    return DeepAnwendungshandbuch(meta=AhbMetaInformation(pruefidentifikator="11042"), lines=[build_group(g) for g in spec])


STALE_TEXT = "stale-text-left-in-the-context-by-an-earlier-step"


async def validate(spec: List[Dict], world: E.World, soll: bool, scheduler: Optional[sched.Sched] = None, stale_text: bool = False, built: Optional[list] = None):
    """("ok", [ValidationResultInContext]) | ("exc", exception)
    stale_text: the calling task has evaluated a stand-alone format constraint before (the documentation tells users to set the context
    variable themselves for that) - what it left there must not reach any data element
    built: a list that receives the DeepAnwendungshandbuch object that was validated (to look at / re-use its objects afterwards)"""
    ahb = build(spec)
    if built is not None:
        built.append(ahb)

    async def go():
        E.set_world(world)
        if stale_text:
            text_to_be_evaluated_by_format_constraint.set(STALE_TEXT)
        return await validate_deep_anwendungshandbuch(ahb, soll_is_required=soll)

    return await sched.run_under(scheduler, go)


async def validate_sequence(spec: List[Dict], worlds: List[E.World], soll: bool, scheduler: Optional[sched.Sched] = None):
    """several validations awaited one after the other from the SAME coroutine (one task, one context) - a batch loop.
    ("ok", [("ok", results) | ("exc", exception), ...])"""

    async def go():
        outcomes = []
        for world in worlds:
            E.set_world(world)
            try:
                outcomes.append(("ok", await validate_deep_anwendungshandbuch(build(spec), soll_is_required=soll)))
            except (KeyboardInterrupt, SystemExit, GeneratorExit):
                raise
            except BaseException as exc:  # pylint:disable=broad-except
                outcomes.append(("exc", exc))
        return outcomes

    return await sched.run_under(scheduler, go)


def free_text_objects(ahb) -> Dict[str, object]:
    """discriminator -> the DataElementFreeText object of the (validated) AHB"""
    out = {}

    def walk_group(g):
        for seg in g.segments or []:
            for de in seg.data_elements or []:
                if isinstance(de, DataElementFreeText):
                    out[de.discriminator] = de
        for sub in g.segment_groups or []:
            walk_group(sub)

    for g in ahb.lines:
        walk_group(g)
    return out


def summarise(results) -> List[tuple]:
    """(discriminator, status, possible values, format flag, format message, hints, data type) per reported node"""
    out = []
    for r in results:
        v = r.validation_result
        out.append(
            (
                r.discriminator,
                str(v.requirement_validation),
                list(getattr(v, "possible_values", None).keys()) if getattr(v, "possible_values", None) is not None else None,
                getattr(v, "format_validation_fulfilled", None),
                getattr(v, "format_error_message", None),
                v.hints,
                str(getattr(v, "data_element_data_type", None)),
            )
        )
    return out
