"""
Completion-order explorer for asyncio.

Every harness-side ("user-supplied") evaluator / provider / resolver calls `await point(label)` before it answers.
`point` either returns at once (the label is in `sync_labels`: models sync or already completed awaitables) or
parks the caller on a fresh Future. A driver coroutine that runs beside the code under test in the same loop waits
until the loop is quiescent (nothing else is runnable) and then releases exactly ONE parked future, chosen by the
chooser. Therefore

* every release order is a completion order real user code could produce; library code is never delayed and
  asyncio's own ordering is never violated - no interleaving is manufactured that the program cannot have;
* a run is decided on logical steps and is reproducible from its decision sequence (`trace`);
* with a ReplayChooser the decision tree can be enumerated completely (DFS over the choice sequence).
"""

import asyncio
from typing import Any, Awaitable, Callable, FrozenSet, List, Optional, Tuple


class SchedHang(Exception):
    """the code under test is not finished, nothing is parked and nothing is runnable"""


class StepLimit(Exception):
    """logical step cap reached (inconclusive, never a verdict)"""


class RandomChooser:
    def __init__(self, rng):
        self.rng = rng
        self.trace: List[List[int]] = []

    def choose(self, n: int) -> int:
        c = self.rng.randrange(n)
        self.trace.append([n, c])
        return c


class ReplayChooser:
    """follows `prefix`, then always takes choice 0; records [n, chosen] per decision"""

    def __init__(self, prefix: Optional[List[int]] = None):
        self.prefix = list(prefix or [])
        self.trace: List[List[int]] = []

    def choose(self, n: int) -> int:
        i = len(self.trace)
        c = self.prefix[i] if i < len(self.prefix) else 0
        if c >= n:  # the run diverged from the recorded one (should not happen: runs are deterministic)
            c = n - 1
        self.trace.append([n, c])
        return c


class FifoChooser:
    def __init__(self):
        self.trace: List[List[int]] = []

    def choose(self, n: int) -> int:
        self.trace.append([n, 0])
        return 0


class LifoChooser:
    def __init__(self):
        self.trace: List[List[int]] = []

    def choose(self, n: int) -> int:
        self.trace.append([n, n - 1])
        return n - 1


class Sched:
    def __init__(self, chooser=None, enabled: bool = True, sync_labels: FrozenSet = frozenset(), max_steps: int = 200_000):
        self.chooser = chooser
        self.enabled = enabled and chooser is not None
        self.sync_labels = sync_labels
        self.max_steps = max_steps
        self.pending: List[Tuple[Any, asyncio.Future]] = []
        self.order: List[Any] = []  # labels in release order = the recorded schedule
        self.registered = 0
        self.sync_passed = 0
        self.max_parked = 0
        self.parked_at_release: List[int] = []
        self.waited_for_threads = 0
        self.in_executor = 0

    async def point(self, label: Any) -> None:
        if not self.enabled or label in self.sync_labels:
            self.sync_passed += 1
            return
        fut = asyncio.get_running_loop().create_future()
        self.pending.append((label, fut))
        self.registered += 1
        self.max_parked = max(self.max_parked, len(self.pending))
        await fut

    def park_shared(self, label: Any) -> "asyncio.Future":
        """a parked Future that the caller hands to SEVERAL awaiters (models a once-per-run backend look-up shared between evaluations)"""
        fut = asyncio.get_running_loop().create_future()
        if not self.enabled or label in self.sync_labels:
            fut.set_result(None)
            return fut
        self.pending.append((label, fut))
        self.registered += 1
        self.max_parked = max(self.max_parked, len(self.pending))
        return fut

    def _quiescent(self, loop) -> bool:
        ready = getattr(loop, "_ready", None)
        if ready is None:
            return False
        if len(ready) != 0:
            return False
        # work handed to a thread pool (asyncio.to_thread / loop.run_in_executor) is library work in flight, too: run() counts the
        # executor futures that are not done yet (their completion reaches the loop through call_soon_threadsafe, i.e. through _ready)
        if self.in_executor > 0:
            self.waited_for_threads += 1
            return False
        return len(ready) == 0

    async def _drive(self, main: asyncio.Future) -> None:
        loop = asyncio.get_running_loop()
        has_ready = getattr(loop, "_ready", None) is not None
        steps = 0
        idle = 0
        while not main.done():
            steps += 1
            if steps > self.max_steps:
                raise StepLimit(f"{steps} driver steps")
            before = self.registered
            await asyncio.sleep(0)
            if main.done():
                break
            if has_ready:
                if not self._quiescent(loop):
                    idle = 0
                    continue
            else:
                if self.registered != before:
                    idle = 0
                    continue
                idle += 1
                if idle < 5:
                    continue
                idle = 0
            if self.pending:
                i = self.chooser.choose(len(self.pending))
                self.parked_at_release.append(len(self.pending))
                label, fut = self.pending.pop(i)
                self.order.append(label)
                if not fut.done():
                    fut.set_result(None)
                idle = 0
            else:
                idle += 1
                if idle > 50:
                    raise SchedHang("code under test is neither finished nor waiting for a harness awaitable")

    async def run(self, coro: Awaitable) -> Any:
        """runs coro as its own task (own copy of the context) under this scheduler; returns its result or raises its exception"""
        loop = asyncio.get_running_loop()
        original = loop.run_in_executor

        def counting_run_in_executor(executor, func, *args):
            fut = original(executor, func, *args)
            self.in_executor += 1

            def done(_f):
                self.in_executor -= 1

            fut.add_done_callback(done)
            return fut

        if self.enabled:
            loop.run_in_executor = counting_run_in_executor  # type:ignore[method-assign]
        main = asyncio.ensure_future(coro)
        try:
            if self.enabled:
                await self._drive(main)
            return await main
        finally:
            if self.enabled:
                del loop.run_in_executor  # the instance attribute; the class method is back
            await self._cleanup(main)

    async def run_capture(self, coro: Awaitable) -> Tuple[str, Any]:
        """("ok", value) or ("exc", exception); BaseExceptions of the code under test (InvalidExpressionError!) are captured too"""
        try:
            return "ok", await self.run(coro)
        except (SchedHang, StepLimit):
            raise
        except (KeyboardInterrupt, SystemExit, GeneratorExit):
            raise
        except asyncio.CancelledError as exc:
            return "exc", exc
        except BaseException as exc:  # pylint:disable=broad-except
            return "exc", exc

    async def _cleanup(self, main: asyncio.Future) -> None:
        if not main.done():
            main.cancel()
        leftovers = self.pending
        self.pending = []
        for _label, fut in leftovers:
            if not fut.done():
                fut.cancel()
        if leftovers or not main.done():
            for _ in range(10):
                await asyncio.sleep(0)
        if not main.done():
            try:
                await main
            except BaseException:  # pylint:disable=broad-except
                pass
        elif not main.cancelled():
            main.exception()  # mark as retrieved


NULL = Sched(None, enabled=False)
ACTIVE: Sched = NULL


def set_active(s: Optional[Sched]) -> None:
    global ACTIVE  # pylint:disable=global-statement
    ACTIVE = s if s is not None else NULL


async def point(label: Any) -> None:
    await ACTIVE.point(label)


async def run_under(sched: Optional[Sched], factory: Callable[[], Awaitable]) -> Tuple[str, Any]:
    """run factory() under sched (None = nothing ever yields) and capture the outcome"""
    s = sched if sched is not None else Sched(None, enabled=False)
    set_active(s)
    try:
        return await s.run_capture(factory())
    finally:
        set_active(None)


async def explore_all(factory: Callable[[], Awaitable], max_runs: int, sync_labels: FrozenSet = frozenset()):
    """
    async generator over ALL release orders of factory()'s harness awaitables (DFS over the decision sequence), cut off
    after max_runs runs. Yields (sched, outcome, exhausted_flag_so_far). The last yielded item has complete=True iff the
    whole decision tree was enumerated.
    """
    prefix: List[int] = []
    runs = 0
    while True:
        chooser = ReplayChooser(prefix)
        s = Sched(chooser, sync_labels=sync_labels)
        outcome = await run_under(s, factory)
        runs += 1
        trace = [list(x) for x in chooser.trace]
        while trace and trace[-1][1] + 1 >= trace[-1][0]:
            trace.pop()
        complete = not trace
        yield s, outcome, complete
        if complete or runs >= max_runs:
            return
        trace[-1][1] += 1
        prefix = [c for _n, c in trace]
