"""
Canonical, JSON-able form of lark trees that keeps token types.

lark's Tree.__eq__ compares `data` and `children`; a Token is a str, so two tokens with the same text but a
different type compare equal - too weak for C10/C11 (a PACKAGE_KEY silently becoming a CONDITION_KEY would be
invisible). `tree.data` is compared as a string (Token('RULE', 'x') vs 'x' is not a difference anyone observes).
"""

from typing import Any


def canon(node: Any):
    # no import of lark at module level: works with whatever lark the repository's interpreter provides
    if hasattr(node, "data") and hasattr(node, "children"):
        data = node.data
        if hasattr(data, "type") and (str(data.type) != "RULE" or type(getattr(data, "value", None)) is not str or data.value != str(data)):
            # the label is a lark Token('RULE', name) for rules without alias; one whose attributes say something else was tampered with
            return ["T", str(data), [canon(c) for c in node.children], ["label", str(data.type), repr(getattr(data, "value", None))[:60]]]
        return ["T", str(data), [canon(c) for c in node.children]]
    if hasattr(node, "type") and isinstance(node, str):
        value = getattr(node, "value", node)
        if type(value) is not str or value != str(node):
            # a lark Token whose .value (what ahbicht reads) is not its text: never the case for a token the parsers produced
            return ["t", str(node.type), str(node), ["value", type(value).__name__, repr(value)[:80]]]
        return ["t", str(node.type), str(node)]
    if isinstance(node, str):
        return ["s", node]
    return ["?", type(node).__name__, repr(node)[:200]]


def show(c, depth=0) -> str:
    """compact one-line rendering of a canonical tree for messages"""
    if c[0] == "T":
        return c[1] + (f"<label {c[3][1]} {c[3][2]}>" if len(c) > 3 else "") + "(" + ", ".join(show(x) for x in c[2]) + ")"
    if c[0] == "t":
        return f"{c[1]}:{c[2]}" + (f"<value {c[3][1]} {c[3][2]}>" if len(c) > 3 else "")
    return repr(c[1:])


def tree_objects(node, acc=None):
    """ids of all Tree and children-list objects reachable from node (for sharing checks)"""
    if acc is None:
        acc = {}
    if hasattr(node, "data") and hasattr(node, "children"):
        acc[id(node)] = node
        acc[id(node.children)] = node.children
        for c in node.children:
            tree_objects(c, acc)
    return acc
