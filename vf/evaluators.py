"""
Harness-side "user-supplied" logic: requirement-constraint evaluator, format-constraint evaluator, hints provider,
package resolver and token logic provider. They are real subclasses of ahbicht's base classes, so the base classes'
dispatch / gather / zip code is what runs. Every answer goes through sched.point(), i.e. its completion order is
under the explorer's control.

Answers come from a `World` (the harness' stand-in for "the message being evaluated") that travels in
EvaluatableData.body; the EvaluatableData itself lives in a ContextVar, as ahbicht's documentation prescribes for
concurrent evaluations.
"""

import contextlib
import functools
import inspect
import zlib
from contextvars import ContextVar
from typing import Any, Dict, List, Optional

from vf import repo  # noqa: F401  pylint:disable=unused-import
from vf import sched

import inject  # noqa: E402
from efoli import EdifactFormat, EdifactFormatVersion  # noqa: E402

from ahbicht.content_evaluation.evaluationdatatypes import EvaluatableData, EvaluatableDataProvider, EvaluationContext  # noqa: E402
from ahbicht.content_evaluation.evaluators import Evaluator  # noqa: E402
from ahbicht.content_evaluation.fc_evaluators import FcEvaluator, text_to_be_evaluated_by_format_constraint  # noqa: E402
from ahbicht.content_evaluation.rc_evaluators import RcEvaluator  # noqa: E402
from ahbicht.content_evaluation.token_logic_provider import TokenLogicProvider  # noqa: E402
from ahbicht.expressions.hints_provider import HintsProvider  # noqa: E402
from ahbicht.expressions.package_expansion import PackageResolver  # noqa: E402
from ahbicht.models.condition_nodes import ConditionFulfilledValue, EvaluatedFormatConstraint  # noqa: E402
from ahbicht.models.mapping_results import PackageKeyConditionExpressionMapping  # noqa: E402

FORMAT = EdifactFormat.UTILMD
VERSION = EdifactFormatVersion.FV2210

REAL = {
    "F": ConditionFulfilledValue.FULFILLED,
    "U": ConditionFulfilledValue.UNFULFILLED,
    "K": ConditionFulfilledValue.UNKNOWN,
    "N": ConditionFulfilledValue.NEUTRAL,
}
REF = {v: k for k, v in REAL.items()}

RC_KEYS = [str(k) for k in list(range(1, 13)) + [250, 492, 493, 499, 2000, 2222, 2499]] + ["01", "007"]  # the last two: written with leading zeros
RC_SYNC_KEYS = {"5", "6", "10", "250", "2000"}  # plain `def` methods: exercise the non-coroutine branch of the dispatch
FC_KEYS = [str(k) for k in range(901, 1000) if not 931 <= k <= 935] + ["0901", "00950"]
FC_SYNC_KEYS = {str(k) for k in range(901, 1000) if k % 7 == 0} | {"904"}


def hint_text(key: str, world_id: str = "") -> str:
    """unique enough to identify the key (and the world) it was produced for"""
    # braces, percent signs and quotes on purpose: hint texts are user data and must pass through every message untouched
    return f"H{key}@{world_id} {{Z01, Z02}} 100%s '{{0}}'" if world_id else f"H{key} {{Z01}} %d"


def text_predicate(key: str, text: Optional[str]) -> bool:
    """keyed predicate of the entered text (C15): a wrong text shows in the result with probability 1/2 per key"""
    return (zlib.crc32(f"{key}|{text!r}".encode("utf-8")) >> 3) & 1 == 1


class World:
    """what the harness evaluators answer from"""

    def __init__(
        self,
        wid: str = "w",
        rc: Optional[Dict[str, str]] = None,
        fc: Optional[Dict[str, bool]] = None,
        fc_msg: Optional[Dict[str, Optional[str]]] = None,
        hints: Optional[Dict[str, Optional[str]]] = None,
        pkg: Optional[Dict[str, Optional[str]]] = None,
        fc_mode: str = "table",
        hints_sync: bool = False,
    ):
        self.id = wid
        self.rc = rc or {}
        self.fc = fc or {}
        self.fc_msg = fc_msg  # None: unfulfilled constraints carry no message of their own (the base class inserts one)
        self.hints = hints  # None: every hint key has the text hint_text(key, id)
        self.pkg = pkg or {}
        self.fc_mode = fc_mode
        self.hints_sync = hints_sync
        self.pkg_tickets: Optional[List[tuple]] = None  # a list: the package resolver answers every look-up with an expression of its own
        self.data_as_context_manager = False  # True: the EvaluatableDataProvider hands out a context manager (see _provide_data)
        self.shared_lookups = False  # True: all evaluations of one requirement key await ONE shared future (a cached backend look-up)
        self.shared: Dict[str, Any] = {}
        self.log: List[tuple] = []
        self.anomalies: List[str] = []  # things the user-side code observed that cannot happen if evaluations are kept apart
        self.contexts_seen: List[tuple] = []  # (key, scope of the EvaluationContext the evaluation method of that key was handed)

    def data(self) -> EvaluatableData:
        return EvaluatableData(body=self, edifact_format=FORMAT, edifact_format_version=VERSION)

    @classmethod
    def from_cer(cls, cer) -> "World":
        """a World that answers like the given ContentEvaluationResult; its id spells the assignment out"""
        rc = {k: REF[v] for k, v in cer.requirement_constraints.items()}
        fc = {k: v.format_constraint_fulfilled for k, v in cer.format_constraints.items()}
        wid = ",".join(f"{k}={v}" for k, v in sorted(rc.items())) + "|" + ",".join(f"{k}={'T' if v else 'f'}" for k, v in sorted(fc.items()))
        return cls(wid, rc=rc, fc=fc, hints=dict(cer.hints), pkg=dict(cer.packages or {}))


_data_var: ContextVar[Optional[EvaluatableData]] = ContextVar("vf_evaluatable_data", default=None)


def set_world(world: World) -> None:
    """to be called inside the task that performs the evaluation (context local)"""
    _data_var.set(world.data())


def current_world() -> Optional[World]:
    data = _data_var.get()
    return data.body if data is not None else None


class _Released:
    """what is left of the evaluatable data after the provider's context was left (a closed session, a released buffer)"""

    def __repr__(self):
        return "<evaluatable data released by its provider>"


RELEASED = _Released()


@contextlib.contextmanager
def _lease(data: EvaluatableData):
    lease = EvaluatableData(body=data.body, edifact_format=data.edifact_format, edifact_format_version=data.edifact_format_version)
    try:
        yield lease
    finally:
        lease.body = RELEASED


def _provide_data():
    """plain provider, or - World.data_as_context_manager - a provider that is a context manager (python-inject enters it around the
    injected call and leaves it afterwards): the data are only good while the function they were injected into is running"""
    data = _data_var.get()
    if data is None:
        raise RuntimeError("harness error: no World set in this context")
    if getattr(data.body, "data_as_context_manager", False):
        return _lease(data)
    return data


# -------------------------------------------------------------------------------------------------
class HarnessRcEvaluatorOfThePreviousFormatVersion(RcEvaluator):
    """user evaluators are class hierarchies: the evaluator of a new format version extends the previous one and overrides what changed"""


class HarnessRcEvaluator(HarnessRcEvaluatorOfThePreviousFormatVersion):
    edifact_format = FORMAT
    edifact_format_version = VERSION

    def _get_default_context(self) -> EvaluationContext:
        return EvaluationContext(scope=None)


def _used_after_release(key: str):
    """the evaluator was handed evaluatable data whose provider context has been left already: a real evaluator would read garbage"""
    world = current_world()
    world.anomalies.append(f"the evaluator of key {key} was called with evaluatable data that their provider had already released")
    world.log.append(("rc-after-release", key, world.id, world.id))
    return REAL[_ROTATE_EARLY[world.rc[key]]]


_ROTATE_EARLY = {"F": "U", "U": "K", "K": "F", "N": "N"}


def _make_rc_method(key: str, is_sync: bool):
    if is_sync:

        def evaluate(self, evaluatable_data, context):  # pylint:disable=unused-argument
            world: World = evaluatable_data.body
            if world is RELEASED:
                return _used_after_release(key)
            seen = current_world()
            world.contexts_seen.append((key, getattr(context, "scope", None)))
            world.log.append(("rc", key, world.id, seen.id if seen else None))
            return REAL[world.rc[key]]

    else:

        async def evaluate(self, evaluatable_data, context):  # pylint:disable=unused-argument
            world: World = evaluatable_data.body
            if world is RELEASED:
                return _used_after_release(key)
            if world.shared_lookups:
                fut = world.shared.get(key)
                if fut is None:
                    fut = world.shared[key] = sched.ACTIVE.park_shared(("rc-shared", key, world.id))
                await fut
            else:
                # like a real evaluator that narrows the scope of its evaluation context while it works: the context object handed in
                # belongs to THIS evaluation of THIS key
                world.contexts_seen.append((key, getattr(context, "scope", None)))
                if context is not None:
                    context.scope = f"$.condition[{key}]"
                await sched.point(("rc", key, world.id))
                if context is not None and context.scope != f"$.condition[{key}]":
                    world.anomalies.append(f"the evaluation context of key {key} was changed to {context.scope!r} while the evaluator was suspended")
            seen = current_world()
            world.log.append(("rc", key, world.id, seen.id if seen else None))
            return REAL[world.rc[key]]

    evaluate.__name__ = f"evaluate_{key}"
    return evaluate


for _k in RC_KEYS:
    setattr(HarnessRcEvaluator, f"evaluate_{_k}", _make_rc_method(_k, _k in RC_SYNC_KEYS))

# "redefined" conditions: the class still carries the superseded evaluate_<key> method, the public accessor get_evaluation_method
# (which the library's own dictionary based evaluators override as well) routes the key to the current implementation
REDEFINED_RC_KEYS = {"4", "2499"}
_ROTATE = {"F": "U", "U": "K", "K": "F", "N": "N"}


def _make_superseded(key: str):
    def evaluate(self, evaluatable_data, context):  # pylint:disable=unused-argument
        world: World = evaluatable_data.body
        world.anomalies.append(f"the superseded implementation of key {key} was called instead of the one get_evaluation_method returns")
        return REAL[_ROTATE[world.rc[key]]]

    evaluate.__name__ = f"evaluate_{key}"
    return evaluate


for _k in REDEFINED_RC_KEYS:
    setattr(HarnessRcEvaluator, f"current_implementation_of_{_k}", _make_rc_method(_k, False))
    setattr(HarnessRcEvaluator, f"evaluate_{_k}", _make_superseded(_k))


# keys whose evaluation method exists in the base class as well (the previous format version's rule): the subclass' one counts
OVERRIDDEN_RC_KEYS = {"2", "7", "2222"}


def _make_overridden(key: str):
    def evaluate(self, evaluatable_data, context):  # pylint:disable=unused-argument
        world: World = evaluatable_data.body
        world.anomalies.append(f"the base class' implementation of key {key} was called although the evaluator's own class overrides it")
        return REAL[_ROTATE[world.rc[key]]]

    evaluate.__name__ = f"evaluate_{key}"
    return evaluate


for _k in OVERRIDDEN_RC_KEYS:
    setattr(HarnessRcEvaluatorOfThePreviousFormatVersion, f"evaluate_{_k}", _make_overridden(_k))


def _audited(method):
    """a user's decorator (timing, auditing, caching ...) that serves plain and `async def` evaluation methods alike: the wrapper is a
    coroutine function - and that, the callable the evaluator actually carries, is what decides how the method has to be called"""

    @functools.wraps(method)
    async def wrapper(self, *args):
        result = method(self, *args)
        if inspect.isawaitable(result):
            result = await result
        return result

    return wrapper


DECORATED_RC_KEYS = {"6", "10", "3"}  # a plain method and an `async def` one
for _k in DECORATED_RC_KEYS:
    setattr(HarnessRcEvaluator, f"evaluate_{_k}", _audited(getattr(HarnessRcEvaluator, f"evaluate_{_k}")))


def _get_evaluation_method(self, condition_key: str):
    if condition_key in REDEFINED_RC_KEYS:
        return getattr(self, f"current_implementation_of_{condition_key}")
    return Evaluator.get_evaluation_method(self, condition_key)


HarnessRcEvaluator.get_evaluation_method = _get_evaluation_method  # type:ignore[method-assign]


def _decoy(name):
    def helper(self, *args, **kwargs):  # pylint:disable=unused-argument
        raise AssertionError(f"harness: the helper method {name} is no evaluation method and must never be dispatched to")

    helper.__name__ = name
    return helper


# user classes do have helpers like these; only methods named exactly evaluate_<digits> are evaluation methods
for _name in ("evaluate_1_strict", "evaluate_2_or_3", "evaluate_499_legacy", "evaluate_2000x", "pre_evaluate_3", "evaluate_all"):
    setattr(HarnessRcEvaluator, _name, _decoy(_name))


class HarnessFcEvaluator(FcEvaluator):
    """931-935 are inherited (shipped implementations)"""

    edifact_format = FORMAT
    edifact_format_version = VERSION


_CONSTANT_ANSWERS: Dict[tuple, EvaluatedFormatConstraint] = {}


def _fc_answer(key: str, world: World, text_before: Optional[str]) -> EvaluatedFormatConstraint:
    text_after = text_to_be_evaluated_by_format_constraint.get()
    world.log.append(("fc", key, world.id, text_before, text_after))
    if world.fc_mode.startswith("text") and int(key) % 3 == 0:
        # a composite constraint that judges a part of the input by a nested evaluation publishes that part where the nested evaluation
        # looks for its text, and leaves it there: the evaluation of a key runs in a context of its own, nothing outside can see it
        text_to_be_evaluated_by_format_constraint.set(f"<text derived by the evaluation of {key} from {text_before!r}>")
    if world.fc_mode == "text-constant-objects":
        # a user evaluator that answers with two long-lived objects per key (fulfilled / not fulfilled, no message of its own) instead of
        # building a new result every time
        ok = text_predicate(key, text_before)
        return _CONSTANT_ANSWERS.setdefault((key, ok), EvaluatedFormatConstraint(format_constraint_fulfilled=ok, error_message=None))
    if world.fc_mode == "text-shared-objects":
        # ... or with ONE object for "fulfilled" and ONE for "not fulfilled", whatever the key (return self._not_ok)
        ok = text_predicate(key, text_before)
        # (one pair of objects per World = per evaluator instance of one validation run)
        return world.shared.setdefault(("shared answer", ok), EvaluatedFormatConstraint(format_constraint_fulfilled=ok, error_message=None))
    if world.fc_mode == "text":
        ok = text_predicate(key, text_before)
        return EvaluatedFormatConstraint(format_constraint_fulfilled=ok, error_message=None if ok else f"E{key}:{text_before!r}")
    ok = world.fc[key]
    msg = None
    if not ok and world.fc_msg is not None:
        msg = world.fc_msg.get(key)
    return EvaluatedFormatConstraint(format_constraint_fulfilled=ok, error_message=msg)


def _make_fc_method(key: str, is_sync: bool):
    if is_sync:

        def evaluate(self, entered_input):  # pylint:disable=unused-argument
            world = current_world()
            return _fc_answer(key, world, entered_input)

    else:

        async def evaluate(self, entered_input):  # pylint:disable=unused-argument
            world = current_world()
            await sched.point(("fc", key, world.id, entered_input))
            return _fc_answer(key, world, entered_input)

    evaluate.__name__ = f"evaluate_{key}"
    return evaluate


for _k in FC_KEYS:
    setattr(HarnessFcEvaluator, f"evaluate_{_k}", _make_fc_method(_k, _k in FC_SYNC_KEYS))
DECORATED_FC_KEYS = {"904", "910", "905"}  # a plain method and an `async def` one
for _k in DECORATED_FC_KEYS:
    setattr(HarnessFcEvaluator, f"evaluate_{_k}", _audited(getattr(HarnessFcEvaluator, f"evaluate_{_k}")))
for _name in ("evaluate_901_strict", "evaluate_902_or_903", "evaluate_999b", "re_evaluate_904"):
    setattr(HarnessFcEvaluator, _name, _decoy(_name))


class HarnessHintsProvider(HintsProvider):
    edifact_format = FORMAT
    edifact_format_version = VERSION

    async def get_hint_text(self, condition_key: str) -> Optional[str]:
        world = current_world()
        await sched.point(("hint", condition_key, world.id))
        world.log.append(("hint", condition_key, world.id))
        if world.hints is None:
            return hint_text(condition_key, world.id)
        return world.hints.get(condition_key)


class HarnessSyncHintsProvider(HintsProvider):
    """get_hint_text is a plain function: HintsProvider.get_hints takes its non-gather branch"""

    edifact_format = FORMAT
    edifact_format_version = VERSION

    def get_hint_text(self, condition_key: str) -> Optional[str]:  # type:ignore[override]  pylint:disable=invalid-overridden-method
        world = current_world()
        world.log.append(("hint", condition_key, world.id))
        if world.hints is None:
            return hint_text(condition_key, world.id)
        return world.hints.get(condition_key)


class HarnessPackageResolver(PackageResolver):
    edifact_format = FORMAT
    edifact_format_version = VERSION

    async def get_condition_expression(self, package_key: str) -> PackageKeyConditionExpressionMapping:
        world = current_world()
        ticket = None
        if world.pkg_tickets is not None:
            # every look-up is answered with an expression of its own ([7001], [7002], ... in call order): the answers are
            # distinguishable, so it can be checked that each one ends up in the tree exactly once
            ticket = 7001 + len(world.pkg_tickets)
            world.pkg_tickets.append((package_key, ticket))
        await sched.point(("pkg", package_key, world.id))
        world.log.append(("pkg", package_key, world.id))
        expression = world.pkg.get(package_key) if ticket is None else f"[{ticket}]"
        return PackageKeyConditionExpressionMapping(package_key=package_key, package_expression=expression, edifact_format=FORMAT)


class HarnessTokenLogicProvider(TokenLogicProvider):
    def __init__(self):
        self.rc = HarnessRcEvaluator()
        self.fc = HarnessFcEvaluator()
        self.hints = HarnessHintsProvider()
        self.hints_sync = HarnessSyncHintsProvider()
        self.pkg = HarnessPackageResolver()

    def get_rc_evaluator(self, edifact_format=None, format_version=None):
        return self.rc

    def get_fc_evaluator(self, edifact_format=None, format_version=None):
        return self.fc

    def get_hints_provider(self, edifact_format=None, format_version=None):
        world = current_world()
        if world is not None and world.hints_sync:
            return self.hints_sync
        return self.hints

    def get_package_resolver(self, edifact_format=None, format_version=None):
        return self.pkg


_TLP: Optional[HarnessTokenLogicProvider] = None


def install() -> HarnessTokenLogicProvider:
    """(re)configure dependency injection with the harness logic"""
    global _TLP  # pylint:disable=global-statement
    if _TLP is None:
        _TLP = HarnessTokenLogicProvider()

    def configure(binder):
        binder.bind(TokenLogicProvider, _TLP)
        binder.bind_to_provider(EvaluatableDataProvider, _provide_data)

    inject.clear_and_configure(configure)
    return _TLP


def fc_table(assignment: Dict[str, bool], messages: bool = True) -> Dict[str, Any]:
    """EvaluatedFormatConstraint objects for evaluate_format_constraint_tree (fresh objects on every call);
    messages=False: unfulfilled constraints carry no message (what the dictionary / ContentEvaluationResult based evaluators hand over)"""
    return {
        k: EvaluatedFormatConstraint(format_constraint_fulfilled=v, error_message=None if v or not messages else f"E{k}")
        for k, v in assignment.items()
    }


# -------------------------------------------------------------------------------------------------
# the library's OWN ready-made evaluators (what most users take): dictionary based ("hardcoded") and
# ContentEvaluationResult based ones, bound through the evaluator_factory helpers
# -------------------------------------------------------------------------------------------------
_cer_var: ContextVar = ContextVar("vf_content_evaluation_result", default=None)
_CER_TLP = None


NO_PACKAGE_TABLE = object()  # make_cer(packages=NO_PACKAGE_TABLE): the result carries no package table at all (the model's default, None)


def make_cer(rc: Dict[str, str], fc: Dict[str, bool], hints: Dict[str, Optional[str]], fc_msg: Optional[Dict[str, Optional[str]]] = None, packages: Optional[Dict[str, str]] = None, fill_in_place: Optional[bool] = None):
    from ahbicht.models.content_evaluation_result import ContentEvaluationResult

    format_constraints = {k: EvaluatedFormatConstraint(format_constraint_fulfilled=v, error_message=(fc_msg or {}).get(k) if not v else None) for k, v in fc.items()}
    requirement_constraints = {k: REAL[v] for k, v in rc.items()}
    if fill_in_place is None:
        fill_in_place = bool(zlib.crc32(",".join(sorted(packages)).encode()) % 2) if packages and packages is not NO_PACKAGE_TABLE else False
    if packages is not NO_PACKAGE_TABLE and packages and fill_in_place:
        # the other way of building a result: the package table is filled in afterwards, entry by entry
        if zlib.crc32(",".join(sorted(packages)).encode()) // 2 % 2:
            # ... starting from a result that was loaded from a JSON body without "packages" member (what a backend sends that knows no packages)
            from ahbicht.models.content_evaluation_result import ContentEvaluationResultSchema

            cer = ContentEvaluationResultSchema().load(
                {
                    "hints": dict(hints),
                    "format_constraints": {k: {"format_constraint_fulfilled": v.format_constraint_fulfilled, "error_message": v.error_message} for k, v in format_constraints.items()},
                    "requirement_constraints": {k: v.value for k, v in requirement_constraints.items()},
                }
            )
        else:
            cer = ContentEvaluationResult(hints=dict(hints), format_constraints=format_constraints, requirement_constraints=requirement_constraints)
        try:
            if cer.packages is None:
                cer.packages = {}
            for package_key, package_expression in packages.items():
                cer.packages[package_key] = package_expression
            return cer
        except (AttributeError, TypeError):
            pass  # a model that cannot be filled afterwards (frozen / read-only mapping): built in one go below, like everybody has to then
    return ContentEvaluationResult(
        hints=dict(hints),
        format_constraints=format_constraints,
        requirement_constraints=requirement_constraints,
        packages=None if packages is NO_PACKAGE_TABLE else dict(packages or {}),
    )


_LONG_LIVED_DATA = EvaluatableData(body={}, edifact_format=FORMAT, edifact_format_version=VERSION)
LONG_LIVED = [False]  # True: ONE EvaluatableData object for the whole process whose body is updated in place from message to message


def _recase(key: str, state: str) -> str:
    return (state.upper, state.lower, state.capitalize)[zlib.crc32(key.encode()) % 3]()


def _provide_cer_data() -> EvaluatableData:
    from ahbicht.models.content_evaluation_result import ContentEvaluationResultSchema

    cer = _cer_var.get()
    if cer is None:
        raise RuntimeError("harness error: no content evaluation result set in this context")
    if LONG_LIVED[0]:
        return _LONG_LIVED_DATA
    body = ContentEvaluationResultSchema().dump(cer)
    # the states are spelled as a hand-written / foreign JSON body may spell them (the schema reads them case-insensitively)
    body["requirement_constraints"] = {k: _recase(k, v) for k, v in body["requirement_constraints"].items()}
    return EvaluatableData(body=body, edifact_format=FORMAT, edifact_format_version=VERSION)


def install_hardcoded(cer, data_format=None, data_version=None, logic_format=None) -> None:
    """create_hardcoded_evaluators(cer): Dict based RC / FC evaluators, hints provider and package resolver.
    data_format / data_version: the message being evaluated is of ANOTHER format / version than the registered logic;
    logic_format: the logic is registered for that format instead of the harness' usual one"""
    from ahbicht.content_evaluation.evaluator_factory import create_hardcoded_evaluators
    from ahbicht.content_evaluation.token_logic_provider import SingletonTokenLogicProvider

    evaluators = create_hardcoded_evaluators(cer, edifact_format=logic_format or FORMAT, edifact_format_version=VERSION)
    fmt, ver = data_format or FORMAT, data_version or VERSION

    def configure(binder):
        binder.bind(TokenLogicProvider, SingletonTokenLogicProvider([*evaluators]))
        binder.bind_to_provider(EvaluatableDataProvider, lambda: EvaluatableData(body={}, edifact_format=fmt, edifact_format_version=ver))

    inject.clear_and_configure(configure)


class OneTableForEverythingProvider(TokenLogicProvider):
    """a user-written provider that serves ONE dictionary based package resolver (created without any format) for every message"""

    def __init__(self, table: Dict[str, Optional[str]]):
        from ahbicht.expressions.package_expansion import DictBasedPackageResolver

        self.resolver = DictBasedPackageResolver(dict(table))

    def get_rc_evaluator(self, edifact_format=None, format_version=None):
        return _TLP.rc

    def get_fc_evaluator(self, edifact_format=None, format_version=None):
        return _TLP.fc

    def get_hints_provider(self, edifact_format=None, format_version=None):
        return _TLP.hints

    def get_package_resolver(self, edifact_format=None, format_version=None):
        return self.resolver


def install_one_table_provider(table: Dict[str, Optional[str]]) -> None:
    install()
    provider = OneTableForEverythingProvider(table)

    def configure(binder):
        binder.bind(TokenLogicProvider, provider)
        binder.bind_to_provider(EvaluatableDataProvider, _provide_data)

    inject.clear_and_configure(configure)


class _ResolverOnlyProvider(TokenLogicProvider):
    """a user-written provider around ONE package resolver (whatever format the message has)"""

    def __init__(self, resolver):
        self.resolver = resolver

    def get_rc_evaluator(self, edifact_format=None, format_version=None):
        return _TLP.rc

    def get_fc_evaluator(self, edifact_format=None, format_version=None):
        return _TLP.fc

    def get_hints_provider(self, edifact_format=None, format_version=None):
        return _TLP.hints

    def get_package_resolver(self, edifact_format=None, format_version=None):
        return self.resolver


def install_cer_resolver_without_format() -> None:
    """the ContentEvaluationResult based package resolver as the factory creates it by default (no format given), behind a user's provider;
    the package table travels in the evaluatable data (set_cer)"""
    from ahbicht.content_evaluation.evaluator_factory import create_content_evaluation_result_based_evaluators

    install()
    provider = _ResolverOnlyProvider(create_content_evaluation_result_based_evaluators()[3])

    def configure(binder):
        binder.bind(TokenLogicProvider, provider)
        binder.bind_to_provider(EvaluatableDataProvider, _provide_cer_data)

    inject.clear_and_configure(configure)


def install_json_file_resolver(table: Dict[str, Optional[str]], directory: str) -> None:
    """JsonFilePackageResolver on a mapping-LIST file that also holds entries for another EDIFACT format (same keys, other expressions,
    a null, an extra key): they are none of this resolver's business"""
    import json
    import os

    from ahbicht.content_evaluation.token_logic_provider import SingletonTokenLogicProvider
    from ahbicht.expressions.package_expansion import JsonFilePackageResolver

    install()
    entries = [{"edifact_format": str(FORMAT.value), "package_key": k, "package_expression": v} for k, v in table.items()]
    foreign = "MSCONS"
    decoys = [{"edifact_format": foreign, "package_key": k, "package_expression": (None if i % 2 else "[499]")} for i, k in enumerate(table)]
    decoys.append({"edifact_format": foreign, "package_key": "987P", "package_expression": "[498]"})
    mixed = []
    for i, e in enumerate(entries):  # interleaved, the foreign entries before AND after the own ones
        mixed += [decoys[i], e] if i % 2 else [e, decoys[i]]
    mixed.append(decoys[-1])
    path = os.path.join(directory, "packages.json")
    with open(path, "w", encoding="utf-8") as f:
        json.dump(mixed, f)
    resolver = JsonFilePackageResolver(FORMAT, VERSION, path)
    hp = _TLP.hints

    def configure(binder):
        binder.bind(TokenLogicProvider, _JsonResolverProvider(resolver))
        binder.bind_to_provider(EvaluatableDataProvider, lambda: EvaluatableData(body={}, edifact_format=FORMAT, edifact_format_version=VERSION))

    inject.clear_and_configure(configure)


class _JsonResolverProvider(_ResolverOnlyProvider):
    pass


def install_cer_based() -> None:
    """create_content_evaluation_result_based_evaluators(): the answers travel in the evaluatable data (set_cer, context local)"""
    from ahbicht.content_evaluation.evaluator_factory import create_content_evaluation_result_based_evaluators
    from ahbicht.content_evaluation.token_logic_provider import SingletonTokenLogicProvider

    global _CER_TLP  # pylint:disable=global-statement
    if _CER_TLP is None:
        # ONE set of evaluator instances for the whole process, as in an application: only the evaluatable data change from call to call
        _CER_TLP = SingletonTokenLogicProvider([*create_content_evaluation_result_based_evaluators(FORMAT, VERSION)])

    def configure(binder):
        binder.bind(TokenLogicProvider, _CER_TLP)
        binder.bind_to_provider(EvaluatableDataProvider, _provide_cer_data)

    inject.clear_and_configure(configure)


def set_cer(cer) -> None:
    from ahbicht.models.content_evaluation_result import ContentEvaluationResultSchema

    _cer_var.set(cer)
    if LONG_LIVED[0]:
        dumped = ContentEvaluationResultSchema().dump(cer)
        for key, value in dumped.items():  # in place, nested containers too: the application keeps its objects and refreshes their content
            if isinstance(value, dict) and isinstance(_LONG_LIVED_DATA.body.get(key), dict):
                _LONG_LIVED_DATA.body[key].clear()
                _LONG_LIVED_DATA.body[key].update(value)
            else:
                _LONG_LIVED_DATA.body[key] = value


# -------------------------------------------------------------------------------------------------
# user evaluators that keep their answers in INSTANCE state; a new instance per message (another legitimate way of using the base classes)
# -------------------------------------------------------------------------------------------------
class InstanceStateRcEvaluator(RcEvaluator):
    edifact_format = FORMAT
    edifact_format_version = VERSION

    def __init__(self, table: Dict[str, str]):
        super().__init__()
        self.table = dict(table)

    def _get_default_context(self) -> EvaluationContext:
        return EvaluationContext(scope=None)


class InstanceStateFcEvaluator(FcEvaluator):
    edifact_format = FORMAT
    edifact_format_version = VERSION

    def __init__(self, table: Dict[str, bool]):
        super().__init__()
        self.table = dict(table)


def _make_instance_rc(key: str):
    def evaluate(self, evaluatable_data, context):  # pylint:disable=unused-argument
        return REAL[self.table[key]]

    evaluate.__name__ = f"evaluate_{key}"
    return evaluate


def _make_instance_fc(key: str):
    async def evaluate(self, entered_input):  # pylint:disable=unused-argument
        ok = self.table[key]
        return EvaluatedFormatConstraint(format_constraint_fulfilled=ok, error_message=None if ok else f"E{key}")

    evaluate.__name__ = f"evaluate_{key}"
    return evaluate


for _k in RC_KEYS:
    setattr(InstanceStateRcEvaluator, f"evaluate_{_k}", _make_instance_rc(_k))
for _k in FC_KEYS:
    setattr(InstanceStateFcEvaluator, f"evaluate_{_k}", _make_instance_fc(_k))


def install_instance_state(rc: Dict[str, str], fc: Dict[str, bool], hints: Dict[str, Optional[str]]) -> None:
    """fresh evaluator INSTANCES of the same classes for every message"""
    from ahbicht.content_evaluation.token_logic_provider import SingletonTokenLogicProvider
    from ahbicht.expressions.hints_provider import DictBasedHintsProvider
    from ahbicht.expressions.package_expansion import DictBasedPackageResolver

    hp = DictBasedHintsProvider(dict(hints))
    hp.edifact_format, hp.edifact_format_version = FORMAT, VERSION
    pr = DictBasedPackageResolver({})
    pr.edifact_format, pr.edifact_format_version = FORMAT, VERSION
    tlp = SingletonTokenLogicProvider([InstanceStateRcEvaluator(rc), InstanceStateFcEvaluator(fc), hp, pr])

    def configure(binder):
        binder.bind(TokenLogicProvider, tlp)
        binder.bind_to_provider(EvaluatableDataProvider, lambda: EvaluatableData(body={}, edifact_format=FORMAT, edifact_format_version=VERSION))

    inject.clear_and_configure(configure)
