"""
Generators for condition expressions.

Two levels:

* token level ("G-free"): any well-formed token sequence - atoms (condition keys, packages with/without
  repeatability, time conditions), the six operator spellings in both letter cases, juxtaposition,
  brackets, arbitrary whitespace. Used where only syntax matters (C01, C02, C10, C18, C19).

* AST level ("G-eval" / "G-valid" / "G-fc"): JSON-able nested lists
      ["rc", "12"]  ["hint", "501"]  ["fc", "901"]
      ["and", l, r]  ["or", l, r]  ["xor", l, r]
      ["then", l, r]      juxtaposition; exactly one of l / r is an ["fc", k] leaf, the other one is a
                          single hint leaf or an operand that contains a requirement constraint
  plus a renderer that turns one AST into many strings (operator spelling, whitespace, redundant
  brackets). This is the domain in which C04-C09 are stated.

Nothing in here imports ahbicht.
"""

from typing import Any, Callable, Dict, Iterable, List, Optional, Sequence, Set, Tuple

AND_SP = ["U", "u", "∧"]
OR_SP = ["O", "o", "∨"]
XOR_SP = ["X", "x", "⊻"]
SPELLINGS = {"and": AND_SP, "or": OR_SP, "xor": XOR_SP}
OP_OF_SPELLING = {s: op for op, sps in SPELLINGS.items() for s in sps}
WS_CHOICES = ["", "", "", " ", " ", "  ", "\t", "\n", "\f", "\r", " \t "]

# small pools: keys repeat inside one expression
RC_POOL = [str(k) for k in (1, 2, 3, 4, 5, 6)]
HINT_POOL = [str(k) for k in (501, 502, 503, 504)]
FC_POOL = [str(k) for k in (901, 902, 903, 904, 905)]
# boundaries of the documented key ranges
RC_EDGE = ["1", "499", "2000", "2499", "250", "2222", "01", "007"]  # incl. keys written with leading zeros: keys are what is written
HINT_EDGE = ["500", "900", "700", "0501"]
FC_EDGE = ["901", "999", "950", "0901", "00950"]

PREC = {"or": 1, "xor": 2, "and": 3, "then": 4}


# =================================================================================================
# AST helpers
# =================================================================================================
def is_leaf(t) -> bool:
    return t[0] in ("rc", "hint", "fc", "pkg", "ub")


def has_rc(t) -> bool:
    if t[0] == "rc":
        return True
    if is_leaf(t):
        return False
    return has_rc(t[1]) or has_rc(t[2])


def leaves(t, acc=None) -> List[list]:
    if acc is None:
        acc = []
    if is_leaf(t):
        acc.append(t)
    else:
        leaves(t[1], acc)
        leaves(t[2], acc)
    return acc


def keys_of(t, kind: str) -> List[str]:
    """distinct keys of one kind in order of first appearance"""
    out: List[str] = []
    for leaf in leaves(t):
        if leaf[0] == kind and leaf[1] not in out:
            out.append(leaf[1])
    return out


def size(t) -> int:
    return len(leaves(t))


def paths(t, prefix=()) -> List[Tuple[int, ...]]:
    """all node positions (pre-order); a path is a tuple of child indexes (1 or 2)"""
    out = [prefix]
    if not is_leaf(t):
        out += paths(t[1], prefix + (1,))
        out += paths(t[2], prefix + (2,))
    return out


def get_at(t, path):
    for i in path:
        t = t[i]
    return t


def replace_at(t, path, new):
    if not path:
        return new
    t = list(t)
    t[path[0]] = replace_at(t[path[0]], path[1:], new)
    return t


def then_parts(t) -> Tuple[list, list, bool]:
    """for a G-eval 'then' node: (operand, fc_leaf, fc_is_left)"""
    if t[1][0] == "fc" and t[2][0] != "fc":
        return t[2], t[1], True
    if t[2][0] == "fc":
        return t[1], t[2], False
    raise ValueError("not a G-eval then node: %r" % (t,))


# =================================================================================================
# AST generation (G-eval)
# =================================================================================================
class Pools:
    def __init__(self, rc: Sequence[str] = RC_POOL, hint: Sequence[str] = HINT_POOL, fc: Sequence[str] = FC_POOL):
        self.rc, self.hint, self.fc = list(rc), list(hint), list(fc)


DEFAULT_POOLS = Pools()
EDGE_POOLS = Pools(RC_EDGE, HINT_EDGE, FC_EDGE)


def gen_eval(rng, depth: int, pools: Pools = DEFAULT_POOLS, p_fc_leaf=0.2, p_hint_leaf=0.25, p_then=0.3, max_leaves=12):
    """
    A random G-eval AST: about 40 % of them are structurally invalid by construction (neutral-only operands
    meet requirement constraints under O/X, hints meet format constraints).
    """
    budget = [max_leaves]

    def leaf(need_rc=False):
        budget[0] -= 1
        r = rng.random()
        if need_rc or r < 1 - p_fc_leaf - p_hint_leaf:
            base = ["rc", rng.choice(pools.rc)]
        elif r < 1 - p_fc_leaf:
            base = ["hint", rng.choice(pools.hint)]
        else:
            return ["fc", rng.choice(pools.fc)]
        if rng.random() < p_then and budget[0] > 0:
            budget[0] -= 1
            fc = ["fc", rng.choice(pools.fc)]
            return ["then", fc, base] if rng.random() < 0.3 else ["then", base, fc]
        return base

    def node(d):
        if d == 0 or budget[0] <= 2 or rng.random() < 0.2:
            return leaf()
        op = rng.choice(["and", "and", "or", "xor"])
        t = [op, node(d - 1), node(d - 1)]
        if has_rc(t) and budget[0] > 0 and rng.random() < 0.2:
            budget[0] -= 1
            fc = ["fc", rng.choice(pools.fc)]
            return ["then", fc, t] if rng.random() < 0.3 else ["then", t, fc]
        return t

    return node(depth)


def gen_valid(rng, depth: int, pools: Pools = DEFAULT_POOLS, max_leaves=12, invalid_pred: Optional[Callable] = None, **kw):
    """a structurally valid G-eval AST (rejection sampling with the reference predicate passed in)"""
    assert invalid_pred is not None
    for _ in range(200):
        t = gen_eval(rng, depth, pools, max_leaves=max_leaves, **kw)
        if not invalid_pred(t):
            return t
    return ["rc", rng.choice(pools.rc)]


def gen_neutral_only(rng, depth: int, pools: Pools = DEFAULT_POOLS, max_leaves=8):
    """expressions built from hints and format constraints alone (incl. a format constraint attached to a hint): every composition of
    them is valid except an O/X that DIRECTLY combines a single hint with a single format constraint"""
    budget = [max_leaves]

    def node(d):
        if d == 0 or budget[0] <= 1 or rng.random() < 0.25:
            budget[0] -= 1
            r = rng.random()
            if r < 0.4:
                return ["hint", rng.choice(pools.hint)]
            if r < 0.8:
                return ["fc", rng.choice(pools.fc)]
            budget[0] -= 1
            h, f = ["hint", rng.choice(pools.hint)], ["fc", rng.choice(pools.fc)]
            return ["then", h, f] if rng.random() < 0.6 else ["then", f, h]
        return [rng.choice(["and", "or", "xor"]), node(d - 1), node(d - 1)]

    return node(depth)


def gen_fc_only(rng, depth: int, pool: Sequence[str] = FC_POOL + ["906"], max_leaves=10):
    """G-fc: format constraint keys, U/O/X, brackets"""
    budget = [max_leaves]

    def node(d):
        if d == 0 or budget[0] <= 1 or rng.random() < 0.2:
            budget[0] -= 1
            return ["fc", rng.choice(pool)]
        return [rng.choice(["and", "or", "xor"]), node(d - 1), node(d - 1)]

    return node(depth)


# =================================================================================================
# rendering an AST
# =================================================================================================
class Style:
    """
    how to write an AST down. All choices are drawn from rng per occurrence.
      p_redundant: probability of redundant brackets around any sub-expression
      flat_runs:   leave out the brackets between a node and a child with the same associative operator
                   where that cannot change what the property talks about (see may_flatten)
      spell:       None = random spelling per occurrence, or a fixed index 0/1/2 (letter, lower case, symbol)
      ws:          None = random whitespace, "" = none
    """

    def __init__(self, p_redundant=0.1, flat_runs=0.5, spell: Optional[int] = None, ws: Optional[str] = None, extra_brackets: Iterable[Tuple[int, ...]] = (), flatten_any=False):
        self.flatten_any = flatten_any  # pure Boolean expressions (G-fc): every same-operator run may be written flat
        self.p_redundant = p_redundant
        self.flat_runs = flat_runs
        self.spell = spell
        self.ws = ws
        self.extra_brackets: Set[Tuple[int, ...]] = set(tuple(p) for p in extra_brackets)


PLAIN = Style(p_redundant=0.0, flat_runs=0.0, spell=0, ws="")


def may_flatten(parent_op: str, parent, child) -> bool:
    """
    Brackets between parent and a same-operator child may be dropped (the grouping inside a run of one operator
    is unspecified) only where no property's verdict can depend on the grouping: always for U; for O/X only if
    every item of the run carries a requirement constraint (validity is then grouping independent; a run that
    mixes bare hints and bare format constraints is valid in one grouping and invalid in another).
    """
    if parent_op == "and":
        return True
    if parent_op in ("or", "xor"):
        return all(has_rc(item) for item in run_items(parent, parent_op))
    return False


def run_items(t, op) -> List[list]:
    if t[0] == op:
        return run_items(t[1], op) + run_items(t[2], op)
    return [t]


def render(t, rng, style: Style = Style(), _parent_prec=0, _parent=None, _path=()) -> str:
    k = t[0]

    def ws():
        return style.ws if style.ws is not None else rng.choice(WS_CHOICES)

    if k in ("rc", "hint", "fc"):
        s = "[" + ws() + t[1] + ws() + "]" if style.ws is None and rng.random() < 0.15 else "[" + t[1] + "]"
        my_prec = 5
    elif k == "ub":
        s = "[" + t[1] + "]"
        my_prec = 5
    elif k == "pkg":
        s = "[" + t[1] + (t[2] or "") + "]"
        my_prec = 5
    elif k == "then":
        my_prec = 4
        a = render(t[1], rng, style, 4, t, _path + (1,))
        b = render(t[2], rng, style, 4, t, _path + (2,))
        s = a + ws() + b
    else:
        my_prec = PREC[k]
        a = render(t[1], rng, style, my_prec, t, _path + (1,))
        b = render(t[2], rng, style, my_prec, t, _path + (2,))
        sp = SPELLINGS[k][style.spell] if style.spell is not None else rng.choice(SPELLINGS[k])
        s = a + ws() + sp + ws() + b
    need = my_prec < _parent_prec
    if my_prec == _parent_prec and my_prec < 5:
        # same operator as the parent (then inside then, and inside and, ...)
        if k == "then":
            need = True
        else:
            need = not ((style.flatten_any or may_flatten(k, _parent, t)) and rng.random() < style.flat_runs)
    if need or _path in style.extra_brackets or (style.p_redundant and rng.random() < style.p_redundant):
        s = "(" + ws() + s + ws() + ")"
    return s


# =================================================================================================
# token level generation (G-free)
# =================================================================================================
def atom_free(rng, packages=True, time_conditions=True, edge=False) -> str:
    r = rng.random()
    if packages and r < 0.12:
        key = str(rng.choice([1, 2, 3, 10, 99, 123, 4711]))
        if rng.random() < 0.5:
            a = rng.choice([0, 0, 1, 2, 5, 17])
            b = max(1, a) + rng.choice([0, 0, 1, 3, 20])
            return "[%sP%d..%d]" % (key, a, b)
        return "[%sP]" % key
    if time_conditions and r < 0.2:
        return "[UB%d]" % rng.randint(1, 3)
    pool = RC_POOL + HINT_POOL + FC_POOL
    if edge or rng.random() < 0.15:
        pool = RC_EDGE + HINT_EDGE + FC_EDGE
    return "[" + rng.choice(pool) + "]"


def gen_tokens(rng, max_items=6, depth=3, atom: Callable = atom_free, p_juxta=0.25, p_group=0.25, ops: Optional[Sequence[str]] = None) -> List[str]:
    """
    a well-formed token sequence:  expr := item (sep item)* ; sep := operator spelling | nothing ; item := atom | ( expr )
    Flat runs of one operator, mixed spellings inside a run and juxtaposition chains occur naturally.
    """
    all_ops = list(ops) if ops is not None else AND_SP + OR_SP + XOR_SP
    n = rng.randint(1, max_items)
    out: List[str] = []
    # bias: sometimes restrict the operators of this level to one or two kinds, so that longer same-operator runs occur
    level_ops = all_ops if rng.random() < 0.5 else rng.sample(all_ops, k=min(len(all_ops), rng.randint(1, 3)))
    for i in range(n):
        if i:
            if rng.random() >= p_juxta:
                out.append(rng.choice(level_ops))
        if depth > 0 and rng.random() < p_group:
            out.append("(")
            out.extend(gen_tokens(rng, max(1, max_items - 1), depth - 1, atom, p_juxta, p_group, ops))
            out.append(")")
        else:
            out.append(atom(rng))
    return out


def join_tokens(tokens: Sequence[str], rng=None, ws: Optional[str] = None) -> str:
    """write a token sequence down; whitespace may go between any two tokens and at both ends"""
    if ws is not None or rng is None:
        sep = ws or ""
        return sep.join(tokens)
    parts = [rng.choice(WS_CHOICES)]
    for tok in tokens:
        if tok.startswith("[") and rng.random() < 0.1:
            # whitespace inside the square brackets (not between package key and repeatability: the documentation is silent there)
            tok = "[" + rng.choice(["", " ", "\t"]) + tok[1:-1] + rng.choice(["", " ", "\n"]) + "]"
        parts.append(tok)
        parts.append(rng.choice(WS_CHOICES))
    return "".join(parts)


def respell(tokens: Sequence[str], rng) -> List[str]:
    """same token sequence, every operator respelled at random"""
    return [rng.choice(SPELLINGS[OP_OF_SPELLING[t]]) if t in OP_OF_SPELLING else t for t in tokens]


# =================================================================================================
# abbreviations: packages and time conditions as syntactic sugar for sub-expressions
# =================================================================================================
EXACT = Style(p_redundant=0.0, flat_runs=0.0)  # every same-operator child is bracketed: the parse is exactly the AST
UB_AST = {
    "UB1": ["fc", "932"],
    "UB2": ["fc", "934"],
    "UB3": ["xor", ["then", ["fc", "932"], ["rc", "492"]], ["then", ["fc", "934"], ["rc", "493"]]],
}


def abbreviate(ast, rng, names, max_packages=2, style: Style = EXACT):
    """replace up to max_packages sub-expressions by packages (names from `names`) whose expression is that sub-expression.
    Returns (abbreviated ast, {package key: expression text}). Resolving the packages gives back the original AST."""
    table = {}
    for name in rng.sample(list(names), rng.randint(0, min(max_packages, len(names)))):
        candidates = [p for p in paths(ast) if not any(get_at(ast, p[:i])[0] == "then" for i in range(len(p) + 1))]
        candidates = [p for p in candidates if not any(leaf[0] in ("pkg", "ub") for leaf in leaves(get_at(ast, p)))]
        if not candidates:
            break
        path = rng.choice(candidates)
        table[name] = render(get_at(ast, path), rng, style)
        ast = replace_at(ast, path, ["pkg", name, rng.choice([None, None, "0..1", "1..3"])])
    return ast, table


# =================================================================================================
# small-scope enumeration: ALL G-eval ASTs up to a number of leaves over a tiny alphabet
# =================================================================================================
SMALL_ALPHABET = [["rc", "1"], ["rc", "2"], ["hint", "501"], ["fc", "901"], ["fc", "902"]]


def _then_ok(l, r) -> bool:
    """juxtaposition attaches a single format-constraint key to a hint leaf or to an operand containing a requirement constraint"""
    if l[0] == "fc" and r[0] != "fc":
        operand = r
    elif r[0] == "fc" and l[0] != "fc":
        operand = l
    else:
        return False
    return operand[0] == "hint" or has_rc(operand)


def enumerate_asts(n_leaves: int, alphabet=None, _memo=None):
    """every AST of the G-eval domain with exactly n_leaves leaves over `alphabet` (and / or / xor / then over all shapes)"""
    alphabet = alphabet or SMALL_ALPHABET
    memo = _memo if _memo is not None else {}
    if n_leaves in memo:
        return memo[n_leaves]
    if n_leaves == 1:
        out = [list(a) for a in alphabet]
    else:
        out = []
        for k in range(1, n_leaves):
            lefts = enumerate_asts(k, alphabet, memo)
            rights = enumerate_asts(n_leaves - k, alphabet, memo)
            for l in lefts:
                for r in rights:
                    for op in ("and", "or", "xor"):
                        out.append([op, l, r])
                    if _then_ok(l, r):
                        out.append(["then", l, r])
    memo[n_leaves] = out
    return out


def enumerate_fc_asts(n_leaves: int, keys=("901", "902", "903"), _memo=None):
    """every U/O/X expression with exactly n_leaves leaves over the given format-constraint keys (all shapes)"""
    memo = _memo if _memo is not None else {}
    if n_leaves in memo:
        return memo[n_leaves]
    if n_leaves == 1:
        out = [["fc", k] for k in keys]
    else:
        out = []
        for k in range(1, n_leaves):
            for l in enumerate_fc_asts(k, keys, memo):
                for r in enumerate_fc_asts(n_leaves - k, keys, memo):
                    for op in ("and", "or", "xor"):
                        out.append([op, l, r])
    memo[n_leaves] = out
    return out
