"""
Generator for deep AHB trees (maus DeepAnwendungshandbuch) as JSON-able specs, plus spec helpers.

An expression in a spec:   {"parts": [[indicator, spelling, cond_ast | None, cond_text | None], ...]}
   (the string is the concatenation spelling + cond_text per part; rewriting an indicator keeps the whitespace)
Nodes:
   group     {"k": "G", "d": discriminator, "x": expression, "grps": [...], "segs": [...]}
   segment   {"k": "S", "d": ..., "x": expression, "des": [...]}
   free text {"k": "F", "d": ..., "x": expression, "input": None | "" | str}
   pool      {"k": "P", "d": ..., "entries": [{"q": qualifier, "x": expression}], "input": None | "" | str}
Every node has a unique discriminator, every free-text input is unique: histories become unambiguous.

Nothing in here imports ahbicht or maus (vf/treebuild.py turns a spec into maus objects).
"""

from typing import Callable, Dict, Iterator, List, Optional

from vf.gen import ahb as GA
from vf.gen import expr as G

CANON_SPELLING = {"MUSS": "Muss", "SOLL": "Soll", "KANN": "Kann", "X": "X", "O": "O", "U": "U"}


def make_expression(parts: List[list], rng, style: Optional[G.Style] = None) -> Dict:
    out = []
    for ind, cond in parts:
        spell = GA.spelling(ind, rng) if rng.random() < 0.5 else CANON_SPELLING[ind]
        text = None
        if cond is not None:
            text = rng.choice(["", " ", " "]) + G.render(cond, rng, style or G.Style(p_redundant=0.05)) + rng.choice(["", " "])
        out.append([ind, spell, cond, text])
    return {"parts": out}


def expr_string(x: Dict) -> str:
    return "".join(spell + (text or "") for _ind, spell, _cond, text in x["parts"])


def plain_parts(x: Dict) -> List[list]:
    return [[ind, cond] for ind, _spell, cond, _text in x["parts"]]


def rewrite_indicator(x: Dict, old: str, new: str) -> Dict:
    """every part with indicator `old` gets indicator `new` (canonical spelling); condition texts are kept as written"""
    return {"parts": [[new, CANON_SPELLING[new], cond, text] if ind == old else [ind, spell, cond, text] for ind, spell, cond, text in x["parts"]]}


def kann_expression() -> Dict:
    return {"parts": [["KANN", "Kann", None, None]]}


class TreeGen:
    def __init__(self, rng, parts_fn: Callable[[str], List[list]], max_depth=2, max_branch=3, p_pool=0.4, input_fn: Optional[Callable] = None):
        """parts_fn(kind) -> parts list for a node of kind G / S / F / E (pool entry)"""
        self.rng = rng
        self.parts_fn = parts_fn
        self.max_depth = max_depth
        self.max_branch = max_branch
        self.p_pool = p_pool
        self.counter = 0
        self.input_fn = input_fn

    def disc(self, prefix: str) -> str:
        self.counter += 1
        return f"{prefix}{self.counter}"

    def data_element(self):
        rng = self.rng
        if rng.random() >= self.p_pool:
            d = self.disc("F")
            if self.input_fn is not None:
                inp = self.input_fn(d)
            else:
                inp = rng.choice([None, "", f"in-{d}", f"in-{d}"])
            return {"k": "F", "d": d, "x": make_expression(self.parts_fn("F"), rng), "input": inp}
        d = self.disc("P")
        n = rng.choice([1, 2, 2, 3, 4, 5])
        entries = [{"q": f"Q{d}_{i}", "x": make_expression(self.parts_fn("E"), rng)} for i in range(n)]
        inp = rng.choice([None, "", entries[0]["q"], entries[-1]["q"], rng.choice(entries)["q"], "ZZZ", f"Q{d}_99"])
        return {"k": "P", "d": d, "entries": entries, "input": inp}

    def segment(self):
        rng = self.rng
        return {"k": "S", "d": self.disc("S"), "x": make_expression(self.parts_fn("S"), rng), "des": [self.data_element() for _ in range(rng.randint(0, self.max_branch))]}

    def group(self, depth):
        rng = self.rng
        grps = [self.group(depth - 1) for _ in range(rng.randint(0, min(2, self.max_branch)) if depth > 0 else 0)]
        segs = [self.segment() for _ in range(rng.randint(0, self.max_branch))]
        return {"k": "G", "d": self.disc("G"), "x": make_expression(self.parts_fn("G"), rng), "grps": grps, "segs": segs}

    def tree(self) -> List[Dict]:
        return [self.group(self.rng.randint(0, self.max_depth)) for _ in range(self.rng.randint(1, min(3, self.max_branch)))]


def assign_line_indexes(spec: List[Dict], rng) -> None:
    """maus' optional ahb_line_index on every group and segment, as when a deep AHB is built from a flat one: in a flat AHB a group's own
    segments come BEFORE its sub-groups, so the index order differs from the order in which validation has to report the nodes"""
    counter = [rng.randrange(0, 50)]

    def grp(g):
        counter[0] += rng.randint(1, 3)
        g["line"] = counter[0]
        for s in g["segs"]:
            counter[0] += rng.randint(1, 3)
            s["line"] = counter[0]
        for x in g["grps"]:
            grp(x)

    order = list(spec)
    if rng.random() < 0.5:
        rng.shuffle(order)  # top level lines numbered in another order than they are listed
    for g in order:
        grp(g)


def abbreviate_spec(spec: List[Dict], rng, p_expression=0.2) -> Dict[str, str]:
    """some condition expressions of the tree are WRITTEN with packages (their meaning - the AST kept in the spec - stays the same);
    returns the package table the resolver has to know"""
    table: Dict[str, str] = {}
    counter = [0]
    for holder in expressions(spec):
        new_parts = []
        for ind, spell, cond, text in holder["x"]["parts"]:
            if cond is not None and rng.random() < p_expression and len(table) < 40:
                names = [f"{700 + counter[0]}P", f"{701 + counter[0]}P"]
                counter[0] += 2
                short, t = G.abbreviate(cond, rng, names)
                if t:
                    table.update(t)
                    text = rng.choice(["", " "]) + G.render(short, rng, G.EXACT) + rng.choice(["", " "])
            new_parts.append([ind, spell, cond, text])
        holder["x"] = {"parts": new_parts}
    return table


def walk(spec: List[Dict]) -> Iterator[Dict]:
    """all nodes in document order: a group, then its sub-groups, then its segments each followed by its data elements"""

    def grp(g):
        yield g
        for x in g["grps"]:
            yield from grp(x)
        for s in g["segs"]:
            yield s
            yield from s["des"]

    for g in spec:
        yield from grp(g)


def expressions(spec: List[Dict]) -> Iterator[Dict]:
    """all expression holders: nodes with "x" and pool entries"""
    for node in walk(spec):
        if "x" in node:
            yield node
        if node["k"] == "P":
            yield from node["entries"]


def map_expressions(spec: List[Dict], fn: Callable[[Dict, Dict], Dict]) -> List[Dict]:
    """deep copy of spec with every expression x replaced by fn(holder, x)"""

    def de(d):
        d2 = dict(d)
        if d["k"] == "F":
            d2["x"] = fn(d, d["x"])
        else:
            d2["entries"] = [dict(e, x=fn(e, e["x"])) for e in d["entries"]]
        return d2

    def seg(s):
        return dict(s, x=fn(s, s["x"]), des=[de(d) for d in s["des"]])

    def grp(g):
        return dict(g, x=fn(g, g["x"]), grps=[grp(x) for x in g["grps"]], segs=[seg(s) for s in g["segs"]])

    return [grp(g) for g in spec]


def rc_keys_of(spec: List[Dict]) -> List[str]:
    out: List[str] = []
    for holder in expressions(spec):
        for _ind, _sp, cond, _t in holder["x"]["parts"]:
            if cond is not None:
                for k in G.keys_of(cond, "rc"):
                    if k not in out:
                        out.append(k)
    return out
