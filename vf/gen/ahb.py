"""
Generators for AHB expressions (requirement indicator(s) + condition expressions).

parts = [[indicator, cond_ast | None], ...]   indicator in MUSS / SOLL / KANN / X / O / U   (JSON-able)

Documented forms:  one or more modal-mark parts, optionally ending in a bare modal mark
                 | one prefix-operator part
                 | a bare indicator
"""

from itertools import product
from typing import Callable, List, Optional

from vf.gen import expr as G

MODAL = ["MUSS", "SOLL", "KANN"]
PREFIX = ["X", "O", "U"]
BASE_SPELLINGS = {"MUSS": ["Muss", "M"], "SOLL": ["Soll", "S"], "KANN": ["Kann", "K"], "X": ["X"], "O": ["O"], "U": ["U"]}
WS = ["", "", " ", "  ", "\t", "\n", " \t"]


def case_variants(word: str) -> List[str]:
    """all 2^len letter-case variants"""
    return ["".join(p) for p in product(*[(ch.lower(), ch.upper()) for ch in word])]


ALL_SPELLINGS = {ind: [v for base in bases for v in case_variants(base)] for ind, bases in BASE_SPELLINGS.items()}


def spelling(ind: str, rng) -> str:
    r = rng.random()
    if r < 0.5:
        return rng.choice(BASE_SPELLINGS[ind])
    return rng.choice(ALL_SPELLINGS[ind])


def gen_parts(rng, cond: Callable[[], list], max_parts=3, p_bare=0.12, p_prefix=0.25, p_trailing_bare=0.3, prefix_ops=("X", "O", "U")) -> List[list]:
    r = rng.random()
    if r < p_bare:
        return [[rng.choice(MODAL + list(prefix_ops)), None]]
    if r < p_bare + p_prefix:
        return [[rng.choice(list(prefix_ops)), cond()]]
    n = rng.randint(1, max_parts)
    parts = [[rng.choice(MODAL), cond()] for _ in range(n)]
    if rng.random() < p_trailing_bare:
        parts.append([rng.choice(MODAL), None])
    return parts


def render_parts(parts: List[list], rng, style: Optional[G.Style] = None, spellings: Optional[List[str]] = None, ws_around: Optional[List[str]] = None) -> str:
    """
    spellings: fixed indicator spelling per part (else random, any letter case);
    ws_around: per part [before, after] whitespace around its condition expression (else random)
    """
    out = []
    for i, (ind, cond) in enumerate(parts):
        sp = spellings[i] if spellings is not None else spelling(ind, rng)
        out.append(sp)
        if cond is not None:
            before, after = (ws_around[i] if ws_around is not None else (rng.choice(WS), rng.choice(WS)))
            out.append(before + G.render(cond, rng, style or G.Style()) + after)
    return "".join(out)


def render_free_ahb(rng, cond_string: Callable) -> str:
    """syntax level only: indicator structure around arbitrary well-formed condition strings (C02)"""
    r = rng.random()
    if r < 0.1:
        return spelling(rng.choice(MODAL + PREFIX), rng)
    if r < 0.3:
        return spelling(rng.choice(PREFIX), rng) + rng.choice(WS) + cond_string(rng) + rng.choice(WS)
    s = "".join(spelling(rng.choice(MODAL), rng) + rng.choice(WS) + cond_string(rng) + rng.choice(WS) for _ in range(rng.randint(1, 3)))
    if rng.random() < 0.3:
        s += spelling(rng.choice(MODAL), rng)
    return s


def replace_soll(parts: List[list], by: str) -> List[list]:
    return [[by if ind == "SOLL" else ind, cond] for ind, cond in parts]
