"""
Monitors attached to the real code from outside (no source change in the repository is needed):

* OperatorMonitor      table oracle on ConditionFulfilledValue.__and__/__or__/__xor__ for every call made inside real
                       evaluations (C03 in situ)
* PairingMonitor       per-key pairing contracts on the gather+zip sites (C12): whatever the completion order, the value
                       stored for a key must be the value the harness produced for THAT key
* capture / acapture   exception-type monitor: every call of the code under test goes through these
* AnchorCoverage       sys.monitoring based line coverage of the anchor files (informational only)
"""

import asyncio
import functools
import inspect
import os
import sys
from typing import Any, Callable, Dict, List, Optional, Tuple

from vf import repo  # noqa: F401  pylint:disable=unused-import
from vf.ref import logic

from ahbicht.models.condition_nodes import ConditionFulfilledValue  # noqa: E402

CFV = ConditionFulfilledValue
REF_OF = {CFV.FULFILLED: "F", CFV.UNFULFILLED: "U", CFV.UNKNOWN: "K", CFV.NEUTRAL: "N"}
REAL_OF = {v: k for k, v in REF_OF.items()}

HARNESS_ERRORS = (KeyboardInterrupt, SystemExit, GeneratorExit)


def capture(fn: Callable, *args, **kwargs) -> Tuple[str, Any]:
    """("ok", value) | ("exc", exception) - BaseExceptions like InvalidExpressionError included"""
    try:
        return "ok", fn(*args, **kwargs)
    except HARNESS_ERRORS:
        raise
    except BaseException as exc:  # pylint:disable=broad-except
        return "exc", exc


async def acapture(awaitable) -> Tuple[str, Any]:
    try:
        return "ok", await awaitable
    except HARNESS_ERRORS:
        raise
    except BaseException as exc:  # pylint:disable=broad-except
        return "exc", exc


def exc_name(exc: BaseException) -> str:
    return type(exc).__module__ + "." + type(exc).__qualname__


def describe(outcome: Tuple[str, Any]) -> str:
    kind, val = outcome
    if kind == "ok":
        return "returned " + repr(val)[:300]
    return f"raised {exc_name(val)}: {str(val)[:300]}"


class OperatorMonitor:
    """wraps the three operators of the real enum; every call is checked against the reference table"""

    OPS = {"__and__": "and", "__or__": "or", "__xor__": "xor"}

    def __init__(self, on_violation: Callable[[str, str, Any], None]):
        self.on_violation = on_violation
        self.calls = 0
        self.seen = set()
        self._orig: Dict[str, Any] = {}

    def __enter__(self):
        for name, op in self.OPS.items():
            orig = getattr(CFV, name)
            self._orig[name] = orig
            setattr(CFV, name, self._wrap(orig, op))
        return self

    def __exit__(self, *exc):
        for name, orig in self._orig.items():
            setattr(CFV, name, orig)
        return False

    def _wrap(self, orig, op):
        monitor = self

        @functools.wraps(orig)
        def wrapped(a, b):
            result = orig(a, b)
            monitor.calls += 1
            if isinstance(b, CFV):
                ra, rb = REF_OF[a], REF_OF[b]
                monitor.seen.add((op, ra, rb))
                expected = logic.apply(op, ra, rb)
                if not isinstance(result, CFV) or REF_OF[result] != expected:
                    monitor.on_violation(
                        "operator-table-in-situ",
                        f"{logic.NAME[ra]} {op} {logic.NAME[rb]} returned {result!r} inside a real evaluation, reference table says {logic.NAME[expected]}",
                        {"op": op, "a": ra, "b": rb, "got": repr(result)},
                    )
            return result

        return wrapped


class AnchorCoverage:
    """
    Which lines of the anchor files did the workload reach? sys.monitoring LINE events; the callback returns DISABLE, so
    each line costs one event. Informational: verdicts never depend on it.
    """

    TOOL_ID = 3

    def __init__(self, files: List[str]):
        self.files = {os.path.join(repo.SRC, "ahbicht", f) if not os.path.isabs(f) else f for f in files}
        self.lines: Dict[str, set] = {}
        self.active = False

    def __enter__(self):
        mon = getattr(sys, "monitoring", None)
        if mon is None:
            return self
        try:
            mon.use_tool_id(self.TOOL_ID, "vf-anchor-coverage")
        except ValueError:
            return self
        self.active = True

        def on_line(code, line):
            fn = code.co_filename
            if fn in self.files:
                self.lines.setdefault(fn, set()).add(line)
            return mon.DISABLE

        mon.register_callback(self.TOOL_ID, mon.events.LINE, on_line)
        mon.set_events(self.TOOL_ID, mon.events.LINE)
        return self

    def __exit__(self, *exc):
        if self.active:
            mon = sys.monitoring
            mon.set_events(self.TOOL_ID, 0)
            mon.register_callback(self.TOOL_ID, mon.events.LINE, None)
            mon.free_tool_id(self.TOOL_ID)
        return False

    def summary(self) -> Dict[str, int]:
        return {os.path.relpath(fn, repo.SRC): len(lines) for fn, lines in sorted(self.lines.items())}
