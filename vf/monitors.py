"""
Monitors attached to the real code from outside (no source change in the repository is needed):

* OperatorMonitor      table oracle on ConditionFulfilledValue.__and__/__or__/__xor__ for every call made inside real
                       evaluations (C03 in situ)
* PairingMonitor       per-key pairing contracts on the gather+zip sites (C12): whatever the completion order, the value
                       stored for a key must be the value the harness produced for THAT key
* capture / acapture   exception-type monitor: every call of the code under test goes through these
* AnchorCoverage       sys.monitoring based line coverage of the anchor files (informational only)
"""

import asyncio
import functools
import inspect
import os
import sys
from typing import Any, Callable, Dict, List, Optional, Tuple

from vf import repo  # noqa: F401  pylint:disable=unused-import
from vf.ref import logic

from ahbicht.models.condition_nodes import ConditionFulfilledValue  # noqa: E402

CFV = ConditionFulfilledValue
REF_OF = {CFV.FULFILLED: "F", CFV.UNFULFILLED: "U", CFV.UNKNOWN: "K", CFV.NEUTRAL: "N"}
REAL_OF = {v: k for k, v in REF_OF.items()}

HARNESS_ERRORS = (KeyboardInterrupt, SystemExit, GeneratorExit)


def capture(fn: Callable, *args, **kwargs) -> Tuple[str, Any]:
    """("ok", value) | ("exc", exception) - BaseExceptions like InvalidExpressionError included"""
    try:
        return "ok", fn(*args, **kwargs)
    except HARNESS_ERRORS:
        raise
    except BaseException as exc:  # pylint:disable=broad-except
        return "exc", exc


async def acapture(awaitable) -> Tuple[str, Any]:
    try:
        return "ok", await awaitable
    except HARNESS_ERRORS:
        raise
    except BaseException as exc:  # pylint:disable=broad-except
        return "exc", exc


def exc_name(exc: BaseException) -> str:
    return type(exc).__module__ + "." + type(exc).__qualname__


def describe(outcome: Tuple[str, Any]) -> str:
    kind, val = outcome
    if kind == "ok":
        return "returned " + repr(val)[:300]
    return f"raised {exc_name(val)}: {str(val)[:300]}"


class OperatorMonitor:
    """wraps the three operators of the real enum; every call is checked against the reference table"""

    OPS = {"__and__": "and", "__or__": "or", "__xor__": "xor"}

    def __init__(self, on_violation: Callable[[str, str, Any], None]):
        self.on_violation = on_violation
        self.calls = 0
        self.seen = set()
        self._orig: Dict[str, Any] = {}

    def __enter__(self):
        for name, op in self.OPS.items():
            orig = getattr(CFV, name)
            self._orig[name] = orig
            setattr(CFV, name, self._wrap(orig, op))
        return self

    def __exit__(self, *exc):
        for name, orig in self._orig.items():
            setattr(CFV, name, orig)
        return False

    def _wrap(self, orig, op):
        monitor = self

        @functools.wraps(orig)
        def wrapped(a, b):
            result = orig(a, b)
            monitor.calls += 1
            if isinstance(b, CFV):
                ra, rb = REF_OF[a], REF_OF[b]
                monitor.seen.add((op, ra, rb))
                expected = logic.apply(op, ra, rb)
                if not isinstance(result, CFV) or REF_OF[result] != expected:
                    monitor.on_violation(
                        "operator-table-in-situ",
                        f"{logic.NAME[ra]} {op} {logic.NAME[rb]} returned {result!r} inside a real evaluation, reference table says {logic.NAME[expected]}",
                        {"op": op, "a": ra, "b": rb, "got": repr(result)},
                    )
            return result

        return wrapped


class AnchorCoverage:
    """
    Which lines of the anchor files did the workload reach? sys.monitoring LINE events; the callback returns DISABLE, so
    each line costs one event. Informational: verdicts never depend on it (it shows which parts of the anchored code the
    monitors have actually seen executing, and which they have not).
    """

    TOOL_ID = 3

    def __init__(self, files: List[str]):
        self.files = {}
        for f in files:
            path = f if os.path.isabs(f) else os.path.join(repo.REPO, f)
            if path.endswith(".py") and os.path.exists(path):
                self.files[os.path.realpath(path)] = f
        self.lines: Dict[str, set] = {}
        self.active = False

    def __enter__(self):
        mon = getattr(sys, "monitoring", None)
        if mon is None or not self.files:
            return self
        try:
            mon.use_tool_id(self.TOOL_ID, "vf-anchor-coverage")
        except ValueError:
            return self
        self.active = True
        files = self.files
        lines = self.lines

        def on_line(code, line):
            fn = code.co_filename
            if fn in files:
                lines.setdefault(fn, set()).add(line)
            return mon.DISABLE

        mon.register_callback(self.TOOL_ID, mon.events.LINE, on_line)
        mon.set_events(self.TOOL_ID, mon.events.LINE)
        return self

    def __exit__(self, *exc):
        if self.active:
            mon = sys.monitoring
            mon.set_events(self.TOOL_ID, 0)
            mon.register_callback(self.TOOL_ID, mon.events.LINE, None)
            mon.free_tool_id(self.TOOL_ID)
            self.active = False
        return False

    @staticmethod
    def executable_lines(path: str) -> set:
        """line numbers that carry code (from the compiled module's code objects), excluding docstring-only lines"""
        with open(path, encoding="utf-8") as f:
            src = f.read()
        out = set()

        def walk(code):
            for _start, _end, line in code.co_lines():
                if line is not None:
                    out.add(line)
            for const in code.co_consts:
                if hasattr(const, "co_lines"):
                    walk(const)

        walk(compile(src, path, "exec"))
        return out

    def summary(self) -> Dict[str, Any]:
        """{anchor file: {"reached_in_functions": n, "lines_in_functions": m, "not_reached": [line numbers]}}; module level lines
        (imports, definitions) run at import time before the monitor starts and are left out"""
        out = {}
        for path, rel in sorted(self.files.items(), key=lambda kv: kv[1]):
            with open(path, encoding="utf-8") as f:
                src = f.read()
            body = set()

            def walk(code, inside):
                for const in code.co_consts:
                    if hasattr(const, "co_lines"):
                        if const.co_flags & 0x1:  # CO_OPTIMIZED: a function / method / lambda / comprehension body, not a class body
                            for _s, _e, line in const.co_lines():
                                if line is not None and line != const.co_firstlineno:
                                    body.add(line)
                        walk(const, True)

            walk(compile(src, path, "exec"), False)
            reached = self.lines.get(path, set()) & body
            missing = sorted(body - reached)
            out[rel] = {"lines_in_functions": len(body), "reached": len(reached), "not_reached": missing[:60]}
        return out


class PairingMonitor:
    """
    Per-key pairing contracts on the gather+zip sites (C12). Whatever the completion order of the user supplied awaitables,
    the value stored for a key / a position must be the value produced for THAT key / position. The expected values come from the
    harness World (vf/evaluators.py), whose tables give neighbouring keys different values.

    Sites: RcEvaluator.evaluate_conditions, FcEvaluator.evaluate_format_constraints, HintsProvider.get_hints (public methods of the
    public base classes; the harness evaluators inherit them) and gather_if_necessary (public utility; patched in every module
    that bound the name at import time).
    """

    def __init__(self, on_violation: Callable[[str, str, Any], None]):
        self.on_violation = on_violation
        self.calls: Dict[str, int] = {"evaluate_conditions": 0, "evaluate_format_constraints": 0, "get_hints": 0, "gather_if_necessary": 0}
        self.multi: Dict[str, int] = {k: 0 for k in self.calls}  # calls that paired >= 2 items
        self._undo: List[Tuple[Any, str, Any]] = []

    def _patch(self, owner, name, new):
        self._undo.append((owner, name, getattr(owner, name)))
        setattr(owner, name, new)

    def __enter__(self):
        from vf import evaluators as E
        from ahbicht.content_evaluation.fc_evaluators import FcEvaluator, text_to_be_evaluated_by_format_constraint
        from ahbicht.content_evaluation.rc_evaluators import RcEvaluator
        from ahbicht.expressions.hints_provider import HintsProvider
        import ahbicht.utility_functions as util

        mon = self
        orig_rc = RcEvaluator.evaluate_conditions
        orig_fc = FcEvaluator.evaluate_format_constraints
        orig_hints = HintsProvider.get_hints
        orig_gather = util.gather_if_necessary

        async def evaluate_conditions(self_, condition_keys, evaluatable_data, condition_keys_with_context=None):
            keys = list(condition_keys)
            result = await orig_rc(self_, condition_keys, evaluatable_data, condition_keys_with_context)
            world = getattr(evaluatable_data, "body", None)
            if isinstance(world, E.World):
                mon.calls["evaluate_conditions"] += 1
                mon.multi["evaluate_conditions"] += len(set(keys)) >= 2
                for key in keys:
                    expected = REAL_OF[world.rc[key]]
                    if key not in result or result[key] is not expected:
                        mon.on_violation("pairing-requirement-constraints", f"evaluate_conditions({keys}): key {key} is paired with {result.get(key)!r}, the evaluator produced {expected!r} for it (world {world.id})", {"keys": keys})
                        break
                if set(result.keys()) != set(keys):
                    mon.on_violation("pairing-requirement-constraints", f"evaluate_conditions({keys}) returned the keys {sorted(result.keys())}", {"keys": keys})
                if world.anomalies:
                    mon.on_violation("evaluation-context-shared", f"evaluate_conditions({keys}): {world.anomalies[0]} (world {world.id})", {"keys": keys})
                    world.anomalies.clear()
            return result

        async def evaluate_format_constraints(self_, condition_keys):
            keys = list(condition_keys)
            text = text_to_be_evaluated_by_format_constraint.get()
            world = E.current_world()
            result = await orig_fc(self_, condition_keys)
            if isinstance(world, E.World):
                mon.calls["evaluate_format_constraints"] += 1
                mon.multi["evaluate_format_constraints"] += len(set(keys)) >= 2
                for key in keys:
                    if 931 <= int(key) <= 935:
                        continue
                    expected = E.text_predicate(key, text) if world.fc_mode.startswith("text") else world.fc[key]
                    got = result.get(key)
                    if got is None or got.format_constraint_fulfilled is not expected:
                        mon.on_violation("pairing-format-constraints", f"evaluate_format_constraints({keys}): key {key} is paired with {got!r}, the evaluator produced fulfilled={expected} for it (world {world.id}, text {text!r})", {"keys": keys})
                        break
                    if world.fc_mode == "table" and world.fc_msg is not None and not expected and got.error_message != world.fc_msg.get(key):
                        mon.on_violation("pairing-format-constraints", f"evaluate_format_constraints({keys}): key {key} carries the message {got.error_message!r}, the evaluator produced {world.fc_msg.get(key)!r} for it", {"keys": keys})
                        break
            return result

        async def get_hints(self_, condition_keys, raise_key_error=True):
            keys = list(condition_keys)
            world = E.current_world()
            result = await orig_hints(self_, condition_keys, raise_key_error)
            if isinstance(world, E.World):
                mon.calls["get_hints"] += 1
                mon.multi["get_hints"] += len(set(keys)) >= 2
                for key in keys:
                    expected = E.hint_text(key, world.id) if world.hints is None else world.hints.get(key)
                    got = result.get(key)
                    if expected is None:
                        continue
                    if got is None or got.hint != expected or got.condition_key != key:
                        mon.on_violation("pairing-hints", f"get_hints({keys}): key {key} is paired with {got!r}, the provider produced {expected!r} for it", {"keys": keys})
                        break
            return result

        async def gather_if_necessary(items):
            items = list(items)
            slots: Dict[int, Any] = {}

            def wrap(i, aw):
                async def runner():
                    value = await aw
                    slots[i] = value
                    return value

                return runner()

            wrapped = [wrap(i, x) if inspect.isawaitable(x) else x for i, x in enumerate(items)]
            result = await orig_gather(wrapped)
            mon.calls["gather_if_necessary"] += 1
            mon.multi["gather_if_necessary"] += len(slots) >= 2
            ok = len(result) == len(items)
            if ok:
                for i, x in enumerate(items):
                    expected = slots[i] if i in slots else x
                    if result[i] is not expected:
                        ok = False
                        break
            if not ok:
                mon.on_violation("pairing-gather-if-necessary", f"gather_if_necessary: position {i if len(result) == len(items) else '?'} of {len(items)} does not hold the value produced for it: {result!r:.300}", None)
            return result

        self._patch(RcEvaluator, "evaluate_conditions", evaluate_conditions)
        self._patch(FcEvaluator, "evaluate_format_constraints", evaluate_format_constraints)
        self._patch(HintsProvider, "get_hints", get_hints)
        for mod in list(sys.modules.values()):
            name = getattr(mod, "__name__", "")
            if name.startswith("ahbicht") and getattr(mod, "gather_if_necessary", None) is orig_gather:
                self._patch(mod, "gather_if_necessary", gather_if_necessary)
        return self

    def __exit__(self, *exc):
        for owner, name, orig in reversed(self._undo):
            setattr(owner, name, orig)
        self._undo = []
        return False
