"""Shared glue between the generator's ASTs / reference states and the real evaluation entry points (C04-C09)."""

from typing import Dict, List, Optional, Tuple

from vf import evaluators as E
from vf import sched
from vf.gen import expr as G
from vf.monitors import REAL_OF, REF_OF, acapture, capture
from vf.ref import logic

from ahbicht.expressions import InvalidExpressionError
from ahbicht.expressions.condition_expression_parser import parse_condition_expression_to_tree
from ahbicht.expressions.format_constraint_expression_evaluation import evaluate_format_constraint_tree, format_constraint_evaluation
from ahbicht.expressions.requirement_constraint_expression_evaluation import evaluate_requirement_constraint_tree, requirement_constraint_evaluation
from ahbicht.models.condition_nodes import Hint, RequirementConstraint, UnevaluatedFormatConstraint


def input_nodes(ast, asg: Dict[str, str]) -> Dict[str, object]:
    nodes: Dict[str, object] = {k: RequirementConstraint(condition_key=k, conditions_fulfilled=REAL_OF[asg[k]]) for k in G.keys_of(ast, "rc")}
    nodes.update({k: Hint(condition_key=k, hint=E.hint_text(k)) for k in G.keys_of(ast, "hint")})
    nodes.update({k: UnevaluatedFormatConstraint(condition_key=k) for k in G.keys_of(ast, "fc")})
    return nodes


def direct_state(tree, ast, asg) -> Tuple[str, object]:
    """("state", ref state) | ("invalid", exc) | ("exc", exc) from evaluate_requirement_constraint_tree"""
    out = capture(evaluate_requirement_constraint_tree, tree, input_nodes(ast, asg))
    if out[0] == "ok":
        state = getattr(out[1], "conditions_fulfilled", None)
        if state not in REF_OF:
            return "exc", TypeError(f"result without condition state: {out[1]!r}")
        return "state", (REF_OF[state], out[1])
    if isinstance(out[1], InvalidExpressionError):
        return "invalid", out[1]
    return "exc", out[1]


def assignments_for(rcs: List[str], rng, full_up_to=6, sample=400, values=("F", "U", "K")) -> List[Dict[str, str]]:
    if len(rcs) <= full_up_to:
        return list(logic.assignments(rcs, values))
    return [{k: rng.choice(values) for k in rcs} for _ in range(sample)]


async def async_requirement(s_or_tree, world: E.World, scheduler: Optional[sched.Sched] = None):
    """requirement_constraint_evaluation through the harness evaluators; ("ok", result) | ("exc", exc)"""

    async def go():
        E.set_world(world)
        return await requirement_constraint_evaluation(s_or_tree)

    return await sched.run_under(scheduler, go)


async def async_format(fce: Optional[str], world: E.World, text: Optional[str] = None, scheduler: Optional[sched.Sched] = None):
    from ahbicht.content_evaluation.fc_evaluators import text_to_be_evaluated_by_format_constraint

    async def go():
        E.set_world(world)
        text_to_be_evaluated_by_format_constraint.set(text)
        return await format_constraint_evaluation(fce)

    return await sched.run_under(scheduler, go)


def world_for(ast, asg: Dict[str, str], fa: Optional[Dict[str, bool]] = None, wid="w", **kw) -> E.World:
    return E.World(wid, rc=dict(asg), fc=dict(fa or {k: True for k in G.keys_of(ast, "fc")}), **kw)


async def with_shipped_evaluators(mode: str, cer, factory, text: Optional[str] = "text"):
    """
    run factory() with the library's own ready-made evaluators bound instead of the harness ones:
      mode "hardcoded": create_hardcoded_evaluators(cer)  (dictionary based)
      mode "cer":       create_content_evaluation_result_based_evaluators(), the result travelling in context local evaluatable data
      mode "cer-long-lived": the same evaluators, but ONE EvaluatableData object whose body is refreshed in place from call to call
      mode "hardcoded-other-version" / "hardcoded-other-format": as "hardcoded", but the message is of a version / format nothing is registered for
      mode "hardcoded-mscons": as "hardcoded", logic and message both of the format MSCONS
      mode "one-table-provider": a user-written TokenLogicProvider serving one DictBasedPackageResolver(table) created without format
      mode "instances": user evaluator classes that keep their answers in instance state, new instances for every call
    ("ok", value) | ("exc", exception); the harness evaluators are re-installed afterwards
    """
    from ahbicht.content_evaluation.fc_evaluators import text_to_be_evaluated_by_format_constraint

    if mode == "hardcoded":
        E.install_hardcoded(cer)
    elif mode == "hardcoded-other-version":
        from efoli import EdifactFormatVersion

        E.install_hardcoded(cer, data_version=EdifactFormatVersion.FV2304)
    elif mode == "hardcoded-other-format":
        from efoli import EdifactFormat

        E.install_hardcoded(cer, data_format=EdifactFormat.MSCONS)
    elif mode == "hardcoded-mscons":
        # logic registered for MSCONS, the message is an MSCONS message: everything as in "hardcoded", only not UTILMD
        from efoli import EdifactFormat

        E.install_hardcoded(cer, data_format=EdifactFormat.MSCONS, logic_format=EdifactFormat.MSCONS)
    elif mode == "one-table-provider":
        E.install_one_table_provider(dict(cer.packages or {}))
    elif mode == "cer-resolver-without-format":
        E.install_cer_resolver_without_format()
    elif mode == "json-file-list":
        import tempfile

        tmpdir = tempfile.mkdtemp(prefix="vf-json-")
        E.install_json_file_resolver(dict(cer.packages or {}), tmpdir)
    elif mode == "instances":
        E.install_instance_state({k: E.REF[v] for k, v in cer.requirement_constraints.items()}, {k: v.format_constraint_fulfilled for k, v in cer.format_constraints.items()}, cer.hints)
    else:
        E.install_cer_based()
        E.LONG_LIVED[0] = mode == "cer-long-lived"

    async def go():
        if mode in ("cer", "cer-long-lived", "cer-resolver-without-format"):
            E.set_cer(cer)
        if mode == "one-table-provider":
            E.set_world(E.World("one-table"))
        text_to_be_evaluated_by_format_constraint.set(text)
        return await factory()

    try:
        return await sched.run_under(None, go)
    finally:
        E.LONG_LIVED[0] = False
        E.install()
        if mode == "json-file-list":
            import shutil

            shutil.rmtree(tmpdir, ignore_errors=True)
