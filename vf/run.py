"""
CLI / orchestrator.

  python -m vf.run <ID> quick|thorough            (what ./check calls)
  python -m vf.run <ID> --replay <file>
  python -m vf.run <ID> --tier T --seed S --shard i/n --out FILE     (internal: one worker)

The parent never imports ahbicht: every shard is a subprocess (subprocess.run with a timeout - a dead or
hanging child makes the run INCONCLUSIVE, it can neither hang the parent nor be mistaken for "held").
"""

import argparse
import asyncio
import importlib
import json
import os
import shutil
import subprocess
import sys
import time
import traceback
from collections import Counter
from concurrent.futures import ThreadPoolExecutor

from vf import core


def _worker(pid: str, tier: str, seed: int, shard: int, nshards: int, out: str) -> int:
    from vf import repo  # noqa: F401  (puts the working tree of the repository on sys.path)

    mod = importlib.import_module(f"vf.checks.{pid.lower()}")
    ctx = core.Ctx(pid, tier, seed, shard, nshards)
    mode = _apply_interpreter_mode()
    ctx.count("shards_run:" + mode)
    status = "ok"
    reason = None
    from vf.monitors import AnchorCoverage

    coverage = AnchorCoverage(_anchor_files(pid))
    try:
        with coverage:
            asyncio.run(mod.run(ctx), loop_factory=_loop_factory(mode))
    except core.Inconclusive as inc:
        status, reason = "inconclusive", str(inc)
    except BaseException:  # pylint:disable=broad-except
        # the harness itself broke: that is neither "held" nor a violation of the property
        status, reason = "crashed", traceback.format_exc()
    res = ctx.result()
    try:
        res["anchor_coverage"] = coverage.summary()
    except Exception:  # pylint:disable=broad-except  (informational only)
        res["anchor_coverage"] = {}
    res["status"] = status
    res["reason"] = reason
    tmp = out + ".tmp"
    with open(tmp, "w", encoding="utf-8") as f:
        json.dump(res, f)
    os.replace(tmp, out)
    return 0


def shard_mode(i: int, nshards: int) -> str:
    """
    The deployment a shard imitates. Shard 0 is always the plain interpreter; with more shards some run under `python -O`
    (asserts stripped, __debug__ False) and / or with every logger of the library switched on down to level 1 and a handler that
    formats each record, and / or with an event loop that creates its tasks eagerly (asyncio.eager_task_factory). None of them changes what correct code does - all are ways real installations run - so none can raise a
    false alarm; a change whose damage only shows there (work done inside an assert, a log statement that consumes a generator
    or formats with side effects) is seen.
    """
    if nshards < 2:
        return "plain"
    return ("plain", "optimized+logging+eager", "logging", "optimized+eager")[i % 4]


def _loop_factory(mode: str):
    """VERIF_EAGER_TASKS=1 (experiment) / mode containing "eager": the event loop creates its tasks with asyncio.eager_task_factory
    (Python 3.12: a task runs synchronously up to its first suspension when it is created)"""
    if "eager" not in mode and os.environ.get("VERIF_EAGER_TASKS") != "1":
        return None

    def factory():
        loop = asyncio.new_event_loop()
        loop.set_task_factory(asyncio.eager_task_factory)
        return loop

    return factory


def _apply_interpreter_mode() -> str:
    """the -O half of the mode is a command-line flag of this process already; the logging half is applied here"""
    want = os.environ.get("VERIF_SHARD_MODE", "plain")
    if "logging" in want:
        import logging

        class _FormatAndDrop(logging.Handler):
            def emit(self, record):
                try:
                    record.getMessage()  # what any real handler does first
                except Exception:  # pylint:disable=broad-except
                    pass  # real handlers report a formatting error on stderr and carry on (Handler.handleError)

        logging.disable(logging.NOTSET)  # vf.repo silences the library for speed: not in this mode
        root = logging.getLogger()
        root.addHandler(_FormatAndDrop(level=1))
        root.setLevel(1)
        for name, logger in list(logging.root.manager.loggerDict.items()):
            if isinstance(logger, logging.Logger) and (name == "ahbicht" or name.startswith("ahbicht.")):
                logger.setLevel(1)
        logging.getLogger("ahbicht").setLevel(1)
    got = []
    if sys.flags.optimize:
        got.append("optimized")
    if "logging" in want:
        got.append("logging")
    if "eager" in want or os.environ.get("VERIF_EAGER_TASKS") == "1":
        got.append("eager")
    return "+".join(got) or "plain"


def _anchor_files(pid: str):
    """the anchor files of the property (from properties.jsonl)"""
    try:
        with open(os.path.join(core.VERIF, "properties.jsonl"), encoding="utf-8") as f:
            for line in f:
                if line.strip():
                    prop = json.loads(line)
                    if prop["id"] == pid:
                        return list(prop["anchors"]["files"])
    except (OSError, ValueError, KeyError):
        pass
    return []


def _replay(pid: str, path: str) -> int:
    from vf import repo  # noqa: F401

    with open(path, encoding="utf-8") as f:
        witness = json.load(f)
    mode = witness.get("interpreter_mode", "plain")
    hash_seed = str(witness.get("hash_seed", "0"))
    if os.environ.get("VERIF_SHARD_MODE") is None:
        os.environ["VERIF_SHARD_MODE"] = mode
        if ("optimized" in mode and not sys.flags.optimize) or os.environ.get("PYTHONHASHSEED") != hash_seed:
            # the witness comes from a shard that ran under `python -O` / with another hash seed: replay it the same way
            flags = ["-O"] if "optimized" in mode else []
            return subprocess.run([sys.executable] + flags + ["-m", "vf.run", pid, "--replay", path], cwd=core.VERIF, env=dict(os.environ, PYTHONHASHSEED=hash_seed), check=False).returncode
    mod = importlib.import_module(f"vf.checks.{pid.lower()}")
    _apply_interpreter_mode()
    ctx = core.Ctx(pid, witness.get("tier", "quick"), int(witness.get("seed", 0)), replaying=True)
    asyncio.run(mod.replay(ctx, witness["phase"], core.unjson(witness["case"])), loop_factory=_loop_factory(mode))
    known = core.load_known_findings()
    if not ctx.violations:
        print(f"replay of {path}: not reproduced (property held on this case)")
        return 0
    code = 0
    for v in ctx.violations:
        entry = core.matching_open_finding(v, known)
        if entry:
            print(f"KNOWN-FINDING: property={pid} {entry.get('what', v['kind'])}")
        else:
            print(f"VIOLATION property={pid} replay={path}")
            print(f"  kind={v['kind']}: {v['message']}")
            code = 1
    return code


def _orchestrate(pid: str, tier: str, seed: int) -> int:
    t0 = time.time()
    mod_path = os.path.join(core.VERIF, "vf", "checks", f"{pid.lower()}.py")
    if not os.path.exists(mod_path):
        print(f"INCONCLUSIVE property={pid} reason=no such check")
        return 2
    # static attributes of the check are read without importing ahbicht: they live in a tiny table
    from vf.checks import META

    meta = META[pid]
    nshards = meta["shards"][tier]
    timeout = meta["timeout"][tier]
    work = os.path.join(core.WORK_DIR, f"{pid}-{tier}-{os.getpid()}")
    shutil.rmtree(work, ignore_errors=True)
    os.makedirs(work, exist_ok=True)
    os.makedirs(core.REPLAY_DIR, exist_ok=True)
    for name in os.listdir(core.REPLAY_DIR):
        if name.startswith(f"{pid}-{tier}-"):
            os.remove(os.path.join(core.REPLAY_DIR, name))
    evidence_path = os.path.join(core.EVIDENCE_DIR, f"{pid}.json")

    env = dict(os.environ)
    env["PYTHONHASHSEED"] = "0"
    env["PYTHONDONTWRITEBYTECODE"] = "1"

    def run_shard(i: int):
        out = os.path.join(work, f"shard{i}.json")
        mode = shard_mode(i, nshards)
        # string hashing: shard 0 always with PYTHONHASHSEED=0, the others with a seed of their own (set / dict-of-set iteration orders
        # differ between deployments; the harness' own randomness does not depend on it - core.stable_hash, random.Random(seed))
        hash_seed = "0" if i == 0 else str((seed * 31 + i * 7919) % 4294967295 or 1)
        cmd = [sys.executable] + (["-O"] if "optimized" in mode else []) + ["-m", "vf.run", pid, "--tier", tier, "--seed", str(seed), "--shard", f"{i}/{nshards}", "--out", out]
        try:
            proc = subprocess.run(cmd, cwd=core.VERIF, env=dict(env, VERIF_SHARD_MODE=mode, PYTHONHASHSEED=hash_seed), timeout=timeout, capture_output=True, text=True, check=False)
        except subprocess.TimeoutExpired:
            return {"status": "timeout", "reason": f"shard {i} exceeded the watchdog of {timeout}s"}
        if not os.path.exists(out):
            return {"status": "crashed", "reason": f"shard {i} exited {proc.returncode} without result\n{proc.stdout[-2000:]}\n{proc.stderr[-4000:]}"}
        with open(out, encoding="utf-8") as f:
            return json.load(f)

    max_par = int(os.environ.get("VERIF_PARALLEL", "14"))
    with ThreadPoolExecutor(max_workers=min(nshards, max_par)) as pool:
        results = list(pool.map(run_shard, range(nshards)))
    shutil.rmtree(work, ignore_errors=True)
    try:
        os.rmdir(core.WORK_DIR)
    except OSError:
        pass

    anchor: dict = {}
    counters: Counter = Counter()
    distinct: set = set()
    overflow = 0
    samples = {}
    notes = {}
    violations = []
    violation_counts: Counter = Counter()
    problems = []
    for i, res in enumerate(results):
        if res.get("status") != "ok":
            problems.append(f"shard {i}: {res.get('status')}: {res.get('reason')}")
        counters.update(res.get("counters", {}))
        distinct.update(res.get("distinct", []))
        overflow += res.get("distinct_overflow", 0)
        for cls, lst in res.get("samples", {}).items():
            cur = samples.setdefault(cls, [])
            for s in lst:
                if len(cur) < core.MAX_SAMPLES_PER_CLASS:
                    cur.append(s)
        for k, v in res.get("notes", {}).items():
            notes.setdefault(k, v)
        for fn, cov in res.get("anchor_coverage", {}).items():
            cur = anchor.setdefault(fn, {"lines_in_functions": cov["lines_in_functions"], "not_reached": set(cov["not_reached"]), "truncated": len(cov["not_reached"]) >= 60})
            cur["not_reached"] &= set(cov["not_reached"])
        violations.extend(res.get("violations", []))
        violation_counts.update(res.get("violation_counts", {}))

    # deciding counters: computed from what the monitors observed
    undecided = []
    tightest = None
    for name, minimum in meta.get("deciding", {}).get(tier, meta.get("deciding", {}).get("any", {})).items():
        if counters.get(name, 0) < minimum:
            undecided.append(f"deciding counter {name}={counters.get(name, 0)} < {minimum}")
        ratio = counters.get(name, 0) / max(1, minimum)
        if tightest is None or ratio < tightest[0]:
            tightest = (ratio, name, counters.get(name, 0), minimum)

    known = core.load_known_findings()
    new_violations = []
    known_hits = {}
    for v in violations:
        entry = core.matching_open_finding(v, known)
        if entry:
            known_hits[(entry.get("property"), entry.get("kind"))] = entry
        else:
            new_violations.append(v)
    # violations counted but whose witnesses were cut off still count as new unless their kind is known
    open_kinds = {(e.get("property"), e.get("kind")) for e in known["open"]}
    n_new = sum(n for kind, n in violation_counts.items() if (pid, kind) not in open_kinds)

    sample_list = []
    for cls, lst in samples.items():
        for s in lst:
            sample_list.append({"class": cls, "case": s})
    coverage = {
        "evaluations": int(counters.get("evaluations", 0)),
        "distinct_nontrivial": len(distinct),
        "rule": meta["rule"] + (f" (distinct tracking capped: {overflow} further non-trivial cases not de-duplicated and not counted)" if overflow else ""),
        "samples": sample_list[:12],
        "exhaustive": bool(meta.get("exhaustive", False)),
        "counters": {k: int(v) for k, v in sorted(counters.items())},
        "shards": nshards,
        "violation_kinds": dict(violation_counts),
    }
    coverage.update(notes)
    coverage["anchor_lines_observed_executing"] = {
        fn: {"lines_in_functions": cov["lines_in_functions"], "not_reached_by_any_shard": sorted(cov["not_reached"]), "list_truncated": cov["truncated"]} for fn, cov in sorted(anchor.items())
    }
    evidence = {
        "property_id": pid,
        "tier": tier,
        "seed": seed,
        "level": meta["level"],
        "coverage": coverage,
        "assumptions": meta["assumptions"],
        "wall_s": round(time.time() - t0, 2),
        "violations": int(n_new),
        "verdict": "violated" if n_new else ("inconclusive" if (problems or undecided) else "held on what was observed"),
        "known_findings_hit": [e.get("what", e.get("kind")) for e in known_hits.values()],
    }
    os.makedirs(core.EVIDENCE_DIR, exist_ok=True)
    tmp = evidence_path + ".tmp"
    with open(tmp, "w", encoding="utf-8") as f:
        json.dump(evidence, f, indent=1, ensure_ascii=True)
        f.write("\n")
    os.replace(tmp, evidence_path)

    for entry in known_hits.values():
        print(f"KNOWN-FINDING: property={pid} {entry.get('what', entry.get('kind'))}")
    code = 0
    if new_violations or n_new:
        per_kind: Counter = Counter()
        shown = []
        for v in new_violations:  # at most two witnesses per mechanism are written out; all are counted
            per_kind[v["kind"]] += 1
            if per_kind[v["kind"]] <= 2:
                shown.append(v)
        for n, v in enumerate(shown):
            path = os.path.join(core.REPLAY_DIR, f"{pid}-{tier}-s{seed}-{n}.json")
            with open(path, "w", encoding="utf-8") as f:
                json.dump(v, f, indent=1, ensure_ascii=True)
                f.write("\n")
            print(f"VIOLATION property={pid} replay={path}")
            print(f"  kind={v['kind']}: {v['message'][:600]}")
        print(f"violations by kind: {dict(violation_counts)}")
        code = 1
    if problems or undecided:
        for p in problems + undecided:
            print(f"INCONCLUSIVE property={pid} reason={p}")
        if code == 0:
            code = 2
    cnt = ", ".join(f"{k}={v}" for k, v in sorted(counters.items()) if k in meta.get("headline", []) or k == "evaluations")
    margin = f"; tightest deciding counter {tightest[1]}={tightest[2]} (needs {tightest[3]})" if tightest else ""
    print(f"{pid} {tier} seed={seed}: {evidence['verdict']}; distinct_nontrivial={len(distinct)}; {cnt}{margin}; {evidence['wall_s']}s")
    return code


def main() -> int:
    ap = argparse.ArgumentParser()
    ap.add_argument("pid")
    ap.add_argument("tier_pos", nargs="?", choices=["quick", "thorough"])
    ap.add_argument("--tier", choices=["quick", "thorough"])
    ap.add_argument("--seed", type=int)
    ap.add_argument("--shard")
    ap.add_argument("--out")
    ap.add_argument("--replay")
    args = ap.parse_args()
    pid = args.pid.upper()
    if args.replay:
        return _replay(pid, args.replay)
    tier = args.tier or args.tier_pos or os.environ.get("VERIF_TIER") or "quick"
    if tier not in ("quick", "thorough"):
        tier = "quick"
    seed = args.seed if args.seed is not None else int(os.environ.get("VERIF_SEED", "0") or 0)
    if args.shard:
        i, n = args.shard.split("/")
        return _worker(pid, tier, seed, int(i), int(n), args.out)
    return _orchestrate(pid, tier, seed)


if __name__ == "__main__":
    sys.exit(main())
