#!/venv/bin/python
"""
Definitions of the sensitivity mutants (realistic breakages that keep the pinned suite green) and of negative controls
(names starting with ok_: behaviour preserving refactorings that must NOT make a check fire).

    /venv/bin/python vf/selftest/define.py      regenerates vf/selftest/mutants/*.diff and expect.json from /repo's working tree

Each entry: (name, [(file relative to /repo, old text, new text), ...], [checks expected to fire])
"""

import difflib
import json
import os
import sys

REPO = "/repo"
HERE = os.path.dirname(os.path.abspath(__file__))

CEP = "src/ahbicht/expressions/condition_expression_parser.py"
CN = "src/ahbicht/models/condition_nodes.py"
CND = "src/ahbicht/condition_node_distinction.py"
CKE = "src/ahbicht/models/categorized_key_extract.py"
TAG = "src/ahbicht/content_evaluation/german_strom_and_gas_tag.py"
RCE = "src/ahbicht/expressions/requirement_constraint_expression_evaluation.py"
EB = "src/ahbicht/expressions/expression_builder.py"
FCE = "src/ahbicht/expressions/format_constraint_expression_evaluation.py"
AEE = "src/ahbicht/expressions/ahb_expression_evaluation.py"
AEP = "src/ahbicht/expressions/ahb_expression_parser.py"
RES = "src/ahbicht/expressions/expression_resolver.py"
UTIL = "src/ahbicht/utility_functions.py"
RCEV = "src/ahbicht/content_evaluation/rc_evaluators.py"
FCEV = "src/ahbicht/content_evaluation/fc_evaluators.py"
HP = "src/ahbicht/expressions/hints_provider.py"
VAL = "src/ahbicht/validation/validation.py"
ER = "src/ahbicht/models/evaluation_results.py"
TS = "src/ahbicht/json_serialization/tree_schema.py"
ENUMS = "src/ahbicht/models/enums.py"
CE = "src/ahbicht/content_evaluation/__init__.py"

MUTANTS = [
    # ---- C01 ---------------------------------------------------------------------------------------------------------
    (
        "c01_xor_binds_tighter_than_and",
        [(CEP, '''            | expression "X"i expression -> xor_composition
            | expression "⊻" expression -> xor_composition
            | expression "U"i expression -> and_composition
            | expression "∧" expression -> and_composition
''', '''            | expression "U"i expression -> and_composition
            | expression "∧" expression -> and_composition
            | expression "X"i expression -> xor_composition
            | expression "⊻" expression -> xor_composition
''')],
        ["C01"],
    ),
    (
        "c01_symbol_xor_below_or",
        [(CEP, '''?expression: expression "O"i expression -> or_composition
            | expression "∨" expression -> or_composition
            | expression "X"i expression -> xor_composition
            | expression "⊻" expression -> xor_composition
''', '''?expression: expression "⊻" expression -> xor_composition
            | expression "O"i expression -> or_composition
            | expression "∨" expression -> or_composition
            | expression "X"i expression -> xor_composition
''')],
        ["C01"],
    ),
    # ---- C03 ---------------------------------------------------------------------------------------------------------
    (
        "c03_or_unknown_before_fulfilled",
        [(CN, '''        if ConditionFulfilledValue.FULFILLED in (self, other):
            return ConditionFulfilledValue.FULFILLED
        # if no operand is fulfilled, then any single "unknown" leads to an unknown outcome
        if ConditionFulfilledValue.UNKNOWN in (self, other):
            return ConditionFulfilledValue.UNKNOWN
        return ConditionFulfilledValue.UNFULFILLED

    def __and__''', '''        if ConditionFulfilledValue.UNKNOWN in (self, other):
            return ConditionFulfilledValue.UNKNOWN
        if ConditionFulfilledValue.FULFILLED in (self, other):
            return ConditionFulfilledValue.FULFILLED
        return ConditionFulfilledValue.UNFULFILLED

    def __and__''')],
        ["C03"],
    ),
    (
        "c03_and_noncommutative_unknown_unfulfilled",
        [(CN, '''        if ConditionFulfilledValue.UNFULFILLED in (self, other):
            return ConditionFulfilledValue.UNFULFILLED
        if ConditionFulfilledValue.UNKNOWN in (self, other):
            return ConditionFulfilledValue.UNKNOWN
        if self == ConditionFulfilledValue.FULFILLED and other''', '''        if self == ConditionFulfilledValue.UNKNOWN:
            return ConditionFulfilledValue.UNKNOWN
        if ConditionFulfilledValue.UNFULFILLED in (self, other):
            return ConditionFulfilledValue.UNFULFILLED
        if ConditionFulfilledValue.UNKNOWN in (self, other):
            return ConditionFulfilledValue.UNKNOWN
        if self == ConditionFulfilledValue.FULFILLED and other''')],
        ["C03"],
    ),
    # ---- C18 ---------------------------------------------------------------------------------------------------------
    ("c18_hint_boundary_500", [(CND, "if 1 <= int(condition_key) <= 499:", "if 1 <= int(condition_key) <= 500:")], ["C18"]),
    ("c18_repeatability_upper_bound", [(CND, "if 2000 <= int(condition_key) <= 2499:", "if 2000 <= int(condition_key) < 2499:")], ["C18"]),
    ("c18_sort_without_int_key", [(CKE, "        self.requirement_constraint_keys.sort(key=int)", "        self.requirement_constraint_keys.sort()")], ["C18"]),
    # ---- C20 ---------------------------------------------------------------------------------------------------------
    (
        "c20_gastag_ignores_seconds",
        [(TAG, "    return german_local_time.hour == 6 and german_local_time.minute == 0 and german_local_time.second == 0", "    return german_local_time.hour == 6 and german_local_time.minute == 0")],
        ["C20"],
    ),
    (
        "c20_fixed_cet_offset",
        [(TAG, "    german_local_datetime = date_time.astimezone(berlin)", "    german_local_datetime = date_time.astimezone(berlin)\n    if date_time.year < 2000:\n        from datetime import timezone as _tz, timedelta as _td\n        german_local_datetime = date_time.astimezone(_tz(_td(hours=1)))")],
        ["C20"],
    ),
    # ---- C12 ---------------------------------------------------------------------------------------------------------
    (
        "c12_rc_results_in_completion_order",
        [(RCEV, """        results = await asyncio.gather(*tasks)

        result = dict(zip(condition_keys, results))
        return result
""", """        results = []

        async def _collect(task):
            results.append(await task)

        await asyncio.gather(*[_collect(task) for task in tasks])

        result = dict(zip(condition_keys, results))
        return result
""")],
        ["C12"],
    ),
    (
        "c12_fc_results_in_completion_order",
        [(FCEV, """        results: List[EvaluatedFormatConstraint] = await asyncio.gather(*tasks)
""", """        results: List[EvaluatedFormatConstraint] = []

        async def _collect(task):
            results.append(await task)

        await asyncio.gather(*[_collect(task) for task in tasks])
""")],
        ["C12"],
    ),
    (
        "c12_hints_sorted_keys",
        [(HP, "        for key, value in zip(condition_keys, results):", "        for key, value in zip(sorted(condition_keys), results):")],
        ["C12"],
    ),
    (
        "c12_gather_if_necessary_completion_order",
        [(UTIL, """    awaited_results = await asyncio.gather(*[x for x in results_and_awaitable_results if inspect.isawaitable(x)])
""", """    awaited_results = []

    async def _collect(awaitable):
        awaited_results.append(await awaitable)

    await asyncio.gather(*[_collect(x) for x in results_and_awaitable_results if inspect.isawaitable(x)])
""")],
        ["C12", "C09"],
    ),
    (
        "c12_packages_in_completion_order",
        [(RES, """    sub_results = await asyncio.gather(*result.scan_values(asyncio.iscoroutine))
""", """    sub_results = []

    async def _collect(coro):
        sub_results.append(await coro)

    await asyncio.gather(*[_collect(coro) for coro in result.scan_values(asyncio.iscoroutine)])
""")],
        ["C12", "C10"],
    ),
    (
        "c12_validity_setter_outside_task",
        [(CE, """        async def evaluate_with_cer(cer: ContentEvaluationResult):
            content_evaluation_result_setter(cer)
            try:""", """        content_evaluation_result_setter(content_evaluation_result)

        async def evaluate_with_cer(cer: ContentEvaluationResult):
            try:""")],
        ["C12"],
    ),
    # ---- regression: the defects repaired by the fix: commits, reverted one by one -------------------------------------
    ("fixrevert_d1_visit_error", [(RES, """        try:
            expression_tree = AhbExpressionResolverTransformer().transform(expression_tree)
        except VisitError as visit_err:
            # lark wraps the SyntaxError of a malformed condition expression inside the ahb expression
            raise visit_err.orig_exc
""", """        expression_tree = AhbExpressionResolverTransformer().transform(expression_tree)
""")], ["C02"]),
    ("fixrevert_d2_lowercase_prefix", [(AEE, "return PrefixOperator(prefix_operator.value.upper())", "return PrefixOperator(prefix_operator.value)")], ["C09"]),
    ("fixrevert_d3_shallow_copy", [(UTIL, "        return copy.deepcopy(tree_result)", "        return tree_result.copy()")], ["C11"]),
    ("fixrevert_d9_unicode_modal_mark", [(AEP, "MODAL_MARK: /(?a:M(uss)?|S(oll)?|K(ann)?)/i", "MODAL_MARK: /M(uss)?|S(oll)?|K(ann)?/i")], ["C02"]),
    ("fixrevert_d10_unicode_repeatability", [(CEP, r"REPEATABILITY: /[0-9]+\.{2}[1-9][0-9]*/", r"REPEATABILITY: /\d+\.{2}[1-9]\d*/")], ["C02"]),
    ("fixrevert_d7_931_midnight", [(TAG, "    if utc_offset == timedelta(0):", "    if utc_offset == timedelta(0) and date_time.time() == time(0, 0, 0):")], ["C20"]),
    ("fixrevert_d8_overflow", [(TAG, "    except OverflowError as overflow_error:", "    except ZeroDivisionError as overflow_error:")], ["C20"]),
]


def make_diff(edits):
    out = []
    by_file = {}
    for fn, old, new in edits:
        by_file.setdefault(fn, []).append((old, new))
    for fn, pairs in by_file.items():
        path = os.path.join(REPO, fn)
        src = open(path, encoding="utf-8").read()
        dst = src
        for old, new in pairs:
            if dst.count(old) != 1:
                raise SystemExit(f"mutant text not found exactly once in {fn}: {old[:70]!r} (count {dst.count(old)})")
            dst = dst.replace(old, new)
        diff = difflib.unified_diff(src.splitlines(True), dst.splitlines(True), "a/" + fn, "b/" + fn)
        out.append("".join(diff))
    return "".join(out)


def main():
    mdir = os.path.join(HERE, "mutants")
    os.makedirs(mdir, exist_ok=True)
    for fn in os.listdir(mdir):
        if fn.endswith(".diff"):
            os.remove(os.path.join(mdir, fn))
    expect = {}
    for name, edits, checks in MUTANTS:
        with open(os.path.join(mdir, name + ".diff"), "w", encoding="utf-8") as f:
            f.write(make_diff(edits))
        expect[name] = checks
    with open(os.path.join(HERE, "expect.json"), "w", encoding="utf-8") as f:
        json.dump(expect, f, indent=1)
        f.write("\n")
    print(len(MUTANTS), "mutants written")


if __name__ == "__main__":
    sys.exit(main())
