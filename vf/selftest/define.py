#!/venv/bin/python
"""
Definitions of the sensitivity mutants (realistic breakages that keep the pinned suite green) and of negative controls
(names starting with ok_: behaviour preserving refactorings that must NOT make a check fire).

    /venv/bin/python vf/selftest/define.py      regenerates vf/selftest/mutants/*.diff and expect.json from /repo's working tree

Each entry: (name, [(file relative to /repo, old text, new text), ...], [checks expected to fire])
"""

import difflib
import json
import os
import sys

REPO = "/repo"
HERE = os.path.dirname(os.path.abspath(__file__))

CEP = "src/ahbicht/expressions/condition_expression_parser.py"
CN = "src/ahbicht/models/condition_nodes.py"
CND = "src/ahbicht/condition_node_distinction.py"
CKE = "src/ahbicht/models/categorized_key_extract.py"
TAG = "src/ahbicht/content_evaluation/german_strom_and_gas_tag.py"
RCE = "src/ahbicht/expressions/requirement_constraint_expression_evaluation.py"
EB = "src/ahbicht/expressions/expression_builder.py"
FCE = "src/ahbicht/expressions/format_constraint_expression_evaluation.py"
AEE = "src/ahbicht/expressions/ahb_expression_evaluation.py"
AEP = "src/ahbicht/expressions/ahb_expression_parser.py"
RES = "src/ahbicht/expressions/expression_resolver.py"
UTIL = "src/ahbicht/utility_functions.py"
RCEV = "src/ahbicht/content_evaluation/rc_evaluators.py"
FCEV = "src/ahbicht/content_evaluation/fc_evaluators.py"
HP = "src/ahbicht/expressions/hints_provider.py"
VAL = "src/ahbicht/validation/validation.py"
ER = "src/ahbicht/models/evaluation_results.py"
TS = "src/ahbicht/json_serialization/tree_schema.py"
ENUMS = "src/ahbicht/models/enums.py"
CE = "src/ahbicht/content_evaluation/__init__.py"

MUTANTS = [
    # ---- C01 ---------------------------------------------------------------------------------------------------------
    (
        "c01_xor_binds_tighter_than_and",
        [(CEP, '''            | expression "X"i expression -> xor_composition
            | expression "⊻" expression -> xor_composition
            | expression "U"i expression -> and_composition
            | expression "∧" expression -> and_composition
''', '''            | expression "U"i expression -> and_composition
            | expression "∧" expression -> and_composition
            | expression "X"i expression -> xor_composition
            | expression "⊻" expression -> xor_composition
''')],
        ["C01"],
    ),
    (
        "c01_symbol_xor_below_or",
        [(CEP, '''?expression: expression "O"i expression -> or_composition
            | expression "∨" expression -> or_composition
            | expression "X"i expression -> xor_composition
            | expression "⊻" expression -> xor_composition
''', '''?expression: expression "⊻" expression -> xor_composition
            | expression "O"i expression -> or_composition
            | expression "∨" expression -> or_composition
            | expression "X"i expression -> xor_composition
''')],
        ["C01"],
    ),
    # ---- C03 ---------------------------------------------------------------------------------------------------------
    (
        "c03_or_unknown_before_fulfilled",
        [(CN, '''        if ConditionFulfilledValue.FULFILLED in (self, other):
            return ConditionFulfilledValue.FULFILLED
        # if no operand is fulfilled, then any single "unknown" leads to an unknown outcome
        if ConditionFulfilledValue.UNKNOWN in (self, other):
            return ConditionFulfilledValue.UNKNOWN
        return ConditionFulfilledValue.UNFULFILLED

    def __and__''', '''        if ConditionFulfilledValue.UNKNOWN in (self, other):
            return ConditionFulfilledValue.UNKNOWN
        if ConditionFulfilledValue.FULFILLED in (self, other):
            return ConditionFulfilledValue.FULFILLED
        return ConditionFulfilledValue.UNFULFILLED

    def __and__''')],
        ["C03"],
    ),
    (
        "c03_and_noncommutative_unknown_unfulfilled",
        [(CN, '''        if ConditionFulfilledValue.UNFULFILLED in (self, other):
            return ConditionFulfilledValue.UNFULFILLED
        if ConditionFulfilledValue.UNKNOWN in (self, other):
            return ConditionFulfilledValue.UNKNOWN
        if self == ConditionFulfilledValue.FULFILLED and other''', '''        if self == ConditionFulfilledValue.UNKNOWN:
            return ConditionFulfilledValue.UNKNOWN
        if ConditionFulfilledValue.UNFULFILLED in (self, other):
            return ConditionFulfilledValue.UNFULFILLED
        if ConditionFulfilledValue.UNKNOWN in (self, other):
            return ConditionFulfilledValue.UNKNOWN
        if self == ConditionFulfilledValue.FULFILLED and other''')],
        ["C03"],
    ),
    # ---- C18 ---------------------------------------------------------------------------------------------------------
    ("c18_hint_boundary_500", [(CND, "if 1 <= int(condition_key) <= 499:", "if 1 <= int(condition_key) <= 500:")], ["C18"]),
    ("c18_repeatability_upper_bound", [(CND, "if 2000 <= int(condition_key) <= 2499:", "if 2000 <= int(condition_key) < 2499:")], ["C18"]),
    ("c18_sort_without_int_key", [(CKE, "        self.requirement_constraint_keys.sort(key=int)", "        self.requirement_constraint_keys.sort()")], ["C18"]),
    # ---- C20 ---------------------------------------------------------------------------------------------------------
    (
        "c20_gastag_ignores_seconds",
        [(TAG, "    return german_local_time.hour == 6 and german_local_time.minute == 0 and german_local_time.second == 0", "    return german_local_time.hour == 6 and german_local_time.minute == 0")],
        ["C20"],
    ),
    (
        "c20_fixed_cet_offset",
        [(TAG, "    german_local_datetime = date_time.astimezone(berlin)", "    german_local_datetime = date_time.astimezone(berlin)\n    if date_time.year < 2000:\n        from datetime import timezone as _tz, timedelta as _td\n        german_local_datetime = date_time.astimezone(_tz(_td(hours=1)))")],
        ["C20"],
    ),
    # ---- C12 ---------------------------------------------------------------------------------------------------------
    (
        "c12_rc_results_in_completion_order",
        [(RCEV, """        results = await asyncio.gather(*tasks)

        result = dict(zip(condition_keys, results))
        return result
""", """        results = []

        async def _collect(task):
            results.append(await task)

        await asyncio.gather(*[_collect(task) for task in tasks])

        result = dict(zip(condition_keys, results))
        return result
""")],
        ["C12"],
    ),
    (
        "c12_fc_results_in_completion_order",
        [(FCEV, """        results: List[EvaluatedFormatConstraint] = await asyncio.gather(*tasks)
""", """        results: List[EvaluatedFormatConstraint] = []

        async def _collect(task):
            results.append(await task)

        await asyncio.gather(*[_collect(task) for task in tasks])
""")],
        ["C12"],
    ),
    (
        "c12_hints_sorted_keys",
        [(HP, "        for key, value in zip(condition_keys, results):", "        for key, value in zip(sorted(condition_keys), results):")],
        ["C12"],
    ),
    (
        "c12_gather_if_necessary_completion_order",
        [(UTIL, """    awaited_results = await asyncio.gather(*[x for x in results_and_awaitable_results if inspect.isawaitable(x)])
""", """    awaited_results = []

    async def _collect(awaitable):
        awaited_results.append(await awaitable)

    await asyncio.gather(*[_collect(x) for x in results_and_awaitable_results if inspect.isawaitable(x)])
""")],
        ["C12", "C09"],
    ),
    (
        "c12_packages_in_completion_order",
        [(RES, """    sub_results = await asyncio.gather(*result.scan_values(asyncio.iscoroutine))
""", """    sub_results = []

    async def _collect(coro):
        sub_results.append(await coro)

    await asyncio.gather(*[_collect(coro) for coro in result.scan_values(asyncio.iscoroutine)])
""")],
        ["C12", "C10"],
    ),
    (
        "c12_validity_setter_outside_task",
        [(CE, """        async def evaluate_with_cer(cer: ContentEvaluationResult):
            content_evaluation_result_setter(cer)
            try:""", """        content_evaluation_result_setter(content_evaluation_result)

        async def evaluate_with_cer(cer: ContentEvaluationResult):
            try:""")],
        ["C12"],
    ),
    # ---- regression: the defects repaired by the fix: commits, reverted one by one -------------------------------------
    ("fixrevert_d1_visit_error", [(RES, """        try:
            expression_tree = AhbExpressionResolverTransformer().transform(expression_tree)
        except VisitError as visit_err:
            # lark wraps the SyntaxError of a malformed condition expression inside the ahb expression
            raise visit_err.orig_exc
""", """        expression_tree = AhbExpressionResolverTransformer().transform(expression_tree)
""")], ["C02"]),
    ("fixrevert_d2_lowercase_prefix", [(AEE, "return PrefixOperator(prefix_operator.value.upper())", "return PrefixOperator(prefix_operator.value)")], ["C09"]),
    ("fixrevert_d3_shallow_copy", [(UTIL, "        return _copy_tree(tree_result)\n", "        return tree_result.copy()\n")], ["C11"]),
    ("fixrevert_d9_unicode_modal_mark", [(AEP, "MODAL_MARK: /(?a:M(uss)?|S(oll)?|K(ann)?)/i", "MODAL_MARK: /M(uss)?|S(oll)?|K(ann)?/i")], ["C02"]),
    ("fixrevert_d10_unicode_repeatability", [(CEP, r"REPEATABILITY: /[0-9]+\.{2}[1-9][0-9]*/", r"REPEATABILITY: /\d+\.{2}[1-9]\d*/")], ["C02"]),
    ("fixrevert_d11_keyword_call_on_cache_hit", [(UTIL, """            expression = args[0] if args else next(iter(kwargs.values()), None)
            parsing_logger.log(_CACHE_LOG_LEVEL, "The parsed tree for '%s' has been loaded from the cache", expression)""", """            parsing_logger.log(_CACHE_LOG_LEVEL, "The parsed tree for '%s' has been loaded from the cache", args[0])""")], ["C11", "C02"]),
    ("fixrevert_d12_deepcopy_recursion", [(UTIL, "        return _copy_tree(tree_result)\n", "        return copy.deepcopy(tree_result)\n")], ["C02"]),
    ("fixrevert_d13_fulfilled_result_with_message", [(FCE, """    if result.format_constraint_fulfilled and result.error_message is not None:
        # Only an unfulfilled result is explained. A text that a _fulfilled_ single format constraint carries is no error.
        result = EvaluatedFormatConstraint(format_constraint_fulfilled=True, error_message=None)
    return result
""", """    return result
""")], ["C08"]),
    ("fixrevert_d14_default_message_written_into_user_object", [(FCEV, """                result = EvaluatedFormatConstraint(
                    format_constraint_fulfilled=False, error_message=f"Condition [{condition_key}] has to be fulfilled."
                )
""", """                result.error_message = f"Condition [{condition_key}] has to be fulfilled."
""")], ["C15"]),
    ("fixrevert_d15_lenient_fromisoformat", [(TAG, """        if _DATETIME_WITH_OFFSET_PATTERN.fullmatch(entered_input) is None:
            raise ValueError(f"Invalid isoformat string: '{entered_input}'")
""", "")], ["C20"]),
    ("fixrevert_d16_validity_of_unresolved_tree", [(CE, """        if any(tree.scan_values(lambda value: isinstance(value, Token) and value.type == "CONDITION_EXPRESSION")):""", """        if False and any(tree.scan_values(lambda value: isinstance(value, Token) and value.type == "CONDITION_EXPRESSION")):""")], ["C06"]),
    ("fixrevert_d17_shared_label_tokens", [(UTIL, """    tree_copied = type(tree)(copy.copy(tree.data), [], meta=getattr(tree, "_meta", None))""", """    tree_copied = type(tree)(tree.data, [], meta=getattr(tree, "_meta", None))"""), (UTIL, """                child_copied = type(child)(copy.copy(child.data), [], meta=getattr(child, "_meta", None))""", """                child_copied = type(child)(child.data, [], meta=getattr(child, "_meta", None))""")], ["C11"]),
    ("fixrevert_d15b_offset_minutes_60_to_99", [(TAG, """    r"(?:[Zz]|[+-]\\d{2}(?::?[0-5]\\d(?::?[0-5]\\d)?)?)?",""", """    r"(?:[Zz]|[+-]\\d{2}(?::?\\d{2}(?::?\\d{2}(?:\\.\\d+)?)?)?)?",""")], ["C20"]),
    ("fixrevert_d16b_time_conditions_of_given_trees", [(CE, """        # time conditions that have not been replaced yet are replaced now (just like for a str)
        tree = expand_time_conditions(tree)
""", "")], ["C06"]),
    ("fixrevert_d16c_time_conditions_only_of_unresolved_trees", [(CE, """                tree = AhbExpressionResolverTransformer().transform(tree)
            except VisitError as visit_err:""", """                tree = expand_time_conditions(AhbExpressionResolverTransformer().transform(tree))
            except VisitError as visit_err:"""), (CE, """        # time conditions that have not been replaced yet are replaced now (just like for a str)
        tree = expand_time_conditions(tree)
""", "")], ["C06"]),
    ("fixrevert_d18a_cer_resolver_own_format", [("src/ahbicht/expressions/package_expansion.py", """            return PackageKeyConditionExpressionMapping(
                edifact_format=evaluatable_data.edifact_format,
                package_expression=package_expression,""", """            return PackageKeyConditionExpressionMapping(
                edifact_format=self.edifact_format,
                package_expression=package_expression,""")], ["C10"]),
    ("fixrevert_d18b_json_file_mixed_formats", [("src/ahbicht/expressions/package_expansion.py", """            if edifact_format is None or mapping.edifact_format == edifact_format""", """            if True""")], ["C10"]),
    ("fixrevert_d19_shared_package_dictionary_of_loaded_results", [("src/ahbicht/models/content_evaluation_result.py", """        load_default=dict,  # a new dictionary for every loaded result (a single {} would be shared between all of them)""", """        load_default={},""")], ["C10"]),
    ("fixrevert_d7_931_midnight", [(TAG, "    if utc_offset == timedelta(0):", "    if utc_offset == timedelta(0) and date_time.time() == time(0, 0, 0):")], ["C20"]),
    ("fixrevert_d8_overflow", [(TAG, "    except OverflowError as overflow_error:", "    except ZeroDivisionError as overflow_error:")], ["C20"]),
    ("fixrevert_d4_soll_flag", [(VAL, """            tasks.append(
                validate_data_element(data_element, segment_validation.requirement_validation, soll_is_required)
            )
""", """            tasks.append(validate_data_element(data_element, segment_validation.requirement_validation))
""")], ["C14", "C13"]),
    ("fixrevert_d5_is_not_assignment", [(VAL, "        requirement_validation_data_element = RequirementValidationValue.IS_FORBIDDEN\n        hints = None", "        requirement_validation_data_element is RequirementValidationValue.IS_FORBIDDEN\n        hints = None")], ["C17"]),
    ("fixrevert_d6_allow_none", [(ER, "    requirement_constraints_fulfilled = fields.Boolean(allow_none=True)  # None: outcome is unknown\n    requirement_is_conditional = fields.Boolean(allow_none=True)", "    requirement_constraints_fulfilled = fields.Boolean()\n    requirement_is_conditional = fields.Boolean()")], ["C19"]),
    # ---- C02 ---------------------------------------------------------------------------------------------------------
    ("c02_unexpected_eof_not_caught", [(CEP, "    except (UnexpectedEOF, UnexpectedCharacters, TypeError) as eof:", "    except (UnexpectedCharacters, TypeError) as eof:")], ["C02"]),
    ("ok_c02_ahb_character_class_accepts_letter_n", [(AEP, r"CONDITION_EXPRESSION: /(?!\BU\B)[\[\]\(\)U∧O∨X⊻\d\sP\.UB]+/i", r"CONDITION_EXPRESSION: /(?!\BU\B)[\[\]\(\)U∧O∨X⊻\d\sP\.UBN]+/i")], ["C02", "C09"]),
    ("c02_repeatability_allows_single_dot_or_three", [(CEP, r"REPEATABILITY: /[0-9]+\.{2}[1-9][0-9]*/", r"REPEATABILITY: /[0-9]+\.{2,3}[1-9][0-9]*/")], ["C02"]),
    ("c02_validity_check_swallows_syntax_error_as_valid", [(CE, """        except SyntaxError as syntax_error:
            return False, str(syntax_error)""", """        except SyntaxError as syntax_error:
            return False, syntax_error.text""")], ["C02"]),
    # ---- C04 ---------------------------------------------------------------------------------------------------------
    ("c04_then_also_unknown_partner_fulfilled", [(RCE, """            evaluated_composition = EvaluatedComposition(conditions_fulfilled=other_condition.conditions_fulfilled)
            format_constraint_is_required""", """            evaluated_composition = EvaluatedComposition(
                conditions_fulfilled=(
                    ConditionFulfilledValue.FULFILLED
                    if other_condition.conditions_fulfilled == ConditionFulfilledValue.UNKNOWN
                    and isinstance(other_condition, EvaluatedComposition)
                    else other_condition.conditions_fulfilled
                )
            )
            format_constraint_is_required""")], ["C04"]),
    ("c04_neutral_reported_conditional", [(RCE, """        requirement_constraints_fulfilled = True
        requirement_is_conditional = False
""", """        requirement_constraints_fulfilled = True
        requirement_is_conditional = isinstance(resulting_condition_node, EvaluatedComposition)
""")], ["C04"]),
    # ---- C05 ---------------------------------------------------------------------------------------------------------
    ("c05_xor_asymmetric_unknown", [(CN, """        if ConditionFulfilledValue.UNKNOWN in (self, other):
            return ConditionFulfilledValue.UNKNOWN
        if self == ConditionFulfilledValue.FULFILLED and other == ConditionFulfilledValue.FULFILLED:
            return ConditionFulfilledValue.UNFULFILLED
        if ConditionFulfilledValue.FULFILLED in (self, other):""", """        if other == ConditionFulfilledValue.UNKNOWN:
            return ConditionFulfilledValue.UNKNOWN
        if self == ConditionFulfilledValue.UNKNOWN:
            return ConditionFulfilledValue.UNKNOWN if other == ConditionFulfilledValue.UNFULFILLED else other
        if self == ConditionFulfilledValue.FULFILLED and other == ConditionFulfilledValue.FULFILLED:
            return ConditionFulfilledValue.UNFULFILLED
        if ConditionFulfilledValue.FULFILLED in (self, other):""")], ["C05", "C03"]),
    ("c05_hint_on_left_of_and_under_then_drops_state", [(RCE, """        if other_condition.conditions_fulfilled != ConditionFulfilledValue.NEUTRAL:
            evaluated_composition = EvaluatedComposition(conditions_fulfilled=other_condition.conditions_fulfilled)""", """        if other_condition.conditions_fulfilled != ConditionFulfilledValue.NEUTRAL:
            evaluated_composition = EvaluatedComposition(
                conditions_fulfilled=(
                    ConditionFulfilledValue.FULFILLED
                    if getattr(other_condition, "hint", None) and other_condition.conditions_fulfilled == ConditionFulfilledValue.UNKNOWN
                    else other_condition.conditions_fulfilled
                )
            )""")], ["C05", "C04"]),
    # ---- C06 ---------------------------------------------------------------------------------------------------------
    ("c06_validity_depends_on_state", [(RCE, """            left.conditions_fulfilled == ConditionFulfilledValue.NEUTRAL
            and right.conditions_fulfilled != ConditionFulfilledValue.NEUTRAL
            or (""", """            left.conditions_fulfilled == ConditionFulfilledValue.NEUTRAL
            and right.conditions_fulfilled not in (ConditionFulfilledValue.NEUTRAL, ConditionFulfilledValue.UNKNOWN)
            or (""")], ["C06"]),
    ("c06_hint_fc_check_one_direction_only", [(RCE, """        if (isinstance(left, Hint) and isinstance(right, UnevaluatedFormatConstraint)) or (
            isinstance(right, Hint) and isinstance(left, UnevaluatedFormatConstraint)
        ):""", """        if isinstance(left, Hint) and isinstance(right, UnevaluatedFormatConstraint):""")], ["C06"]),
    # ---- C07 ---------------------------------------------------------------------------------------------------------
    ("c07_connect_without_brackets_around_prefix", [(EB, """            prefix = f"({self._expression}) {operator_character}\"""", """            prefix = f"{self._expression} {operator_character}\"""")], ["C07"]),
    ("c07_then_also_attaches_for_unknown", [(RCE, "            format_constraint_is_required = other_condition.conditions_fulfilled == ConditionFulfilledValue.FULFILLED", "            format_constraint_is_required = other_condition.conditions_fulfilled != ConditionFulfilledValue.UNFULFILLED")], ["C07"]),
    ("c07_bracket_stripping_greedy", [(EB, r"""_one_key_surrounded_by_brackets_pattern = re.compile(r"\((?P<body>\[\d+\])\)")""", r"""_one_key_surrounded_by_brackets_pattern = re.compile(r"\((?P<body>\[\d+\][^()]*)\)")""")], ["C07"]),
    # ---- C08 ---------------------------------------------------------------------------------------------------------
    # since the repair of D13 the text of a fulfilled result is dropped at the end: this one only changes the wording of messages now
    ("ok_c08_lor_message_when_only_right_unfulfilled", [(EB, """        if self.format_constraint_fulfilled is False and other.format_constraint_fulfilled is False:
            self._expression = f"'{self._expression}' oder '{other.error_message}'\"""", """        if self.format_constraint_fulfilled is False or other.format_constraint_fulfilled is False:
            self._expression = f"'{self._expression}' oder '{other.error_message}'\"""")], ["C08"]),
    ("c08_xor_both_fulfilled_without_message", [(EB, """        elif self.format_constraint_fulfilled is True and other.format_constraint_fulfilled is True:
            self._expression = "Zwei exklusive Formatdefinitionen dürfen nicht gleichzeitig erfüllt sein\"""", """        elif self.format_constraint_fulfilled is True and other.format_constraint_fulfilled is True:
            self._expression = self._expression""")], ["C08"]),
    # ---- C09 ---------------------------------------------------------------------------------------------------------
    ("c09_select_not_false_instead_of_truthy", [(AEE, """            if (
                single_requirement_indicator_expression.requirement_constraint_evaluation_result.requirement_constraints_fulfilled
            ):""", """            if (
                single_requirement_indicator_expression.requirement_constraint_evaluation_result.requirement_constraints_fulfilled
                is not False
            ):""")], ["C09"]),
    ("c09_falls_back_to_first_part", [(AEE, "        return results[-1]", "        return results[0]")], ["C09"]),
    # ---- C10 ---------------------------------------------------------------------------------------------------------
    ("c10_ub3_without_own_subtree", [(RES, """            return parse_condition_expression_to_tree("[932][492]X[934][493]")""", """            return parse_condition_expression_to_tree("[932][492]X[934][492]")""")], ["C10"]),
    ("c10_unresolved_package_left_in_place", [(RES, """        if not resolved_package.has_been_resolved_successfully():
            raise NotImplementedError""", """        if not resolved_package.has_been_resolved_successfully() and package_key_token.value not in ("4711P",):
            return Tree("package", [package_key_token])
        if not resolved_package.has_been_resolved_successfully():
            raise NotImplementedError""")], ["C10"]),
    ("c10_replace_by_equality", [(RES, """                if child == coro:
                    sub_tree.children[child_index] = sub_result""", """                if type(child) is type(coro):
                    sub_tree.children[child_index] = sub_result""")], ["C10"]),
    # ---- C11 ---------------------------------------------------------------------------------------------------------
    ("c11_copy_one_level_only", [(UTIL, "        return _copy_tree(tree_result)", "        shallow = tree_result.copy()\n        shallow.children = list(shallow.children)\n        return shallow")], ["C11"]),
    # ---- C13 ---------------------------------------------------------------------------------------------------------
    ("c13_segments_before_subgroups", [(VAL, """        # validation of child_segment_group s
        if segment_group.segment_groups:
            for child_segment_group in segment_group.segment_groups:
                tasks.append(
                    validate_segment_group(
                        child_segment_group,
                        segment_group_validation.requirement_validation,
                        soll_is_required,
                    )
                )

        # validation of child segments
        if segment_group.segments:
            for segment in segment_group.segments:
                tasks.append(
                    validate_segment(
                        segment,
                        segment_group_validation.requirement_validation,
                        soll_is_required,
                    )
                )
""", """        # validation of child segments
        if segment_group.segments:
            for segment in segment_group.segments:
                tasks.append(
                    validate_segment(
                        segment,
                        segment_group_validation.requirement_validation,
                        soll_is_required,
                    )
                )

        # validation of child_segment_group s
        if segment_group.segment_groups:
            for child_segment_group in segment_group.segment_groups:
                tasks.append(
                    validate_segment_group(
                        child_segment_group,
                        segment_group_validation.requirement_validation,
                        soll_is_required,
                    )
                )
""")], ["C13"]),
    ("c13_optional_parent_keeps_required_child", [(VAL, """        if child_level_requirement is RequirementValidationValue.IS_REQUIRED:
            return RequirementValidationValue.IS_OPTIONAL  # TODO""", """        if child_level_requirement is RequirementValidationValue.IS_REQUIRED and False:
            return RequirementValidationValue.IS_OPTIONAL  # TODO""")], ["C13"]),
    ("c13_no_pruning_below_forbidden_segment", [(VAL, """    if segment_validation.requirement_validation is RequirementValidationValue.IS_FORBIDDEN:
        validation_results_in_context_data_elements = []""", """    if segment_validation.requirement_validation is RequirementValidationValue.IS_FORBIDDEN and segment_group_requirement is None:
        validation_results_in_context_data_elements = []""")], ["C13"]),
    # ---- C14 ---------------------------------------------------------------------------------------------------------
    ("c14_flag_dropped_in_recursive_group_call", [(VAL, """                    validate_segment_group(
                        child_segment_group,
                        segment_group_validation.requirement_validation,
                        soll_is_required,
                    )""", """                    validate_segment_group(
                        child_segment_group,
                        segment_group_validation.requirement_validation,
                    )""")], ["C14"]),
    # ---- C15 ---------------------------------------------------------------------------------------------------------
    ("c15_text_set_before_gather", [(VAL, """        for data_element in segment.data_elements:
            tasks.append(""", """        for data_element in segment.data_elements:
            fc_evaluators.text_to_be_evaluated_by_format_constraint.set(data_element.entered_input)
            tasks.append("""), (VAL, """    fc_evaluators.text_to_be_evaluated_by_format_constraint.set(data_element.entered_input)
    try:
        evaluation_result = await evaluate_ahb_expression_tree(expression_tree)
    except InvalidExpressionError as invalid_expr_error:
        validation_logger.warning(
            "The expression '%s' @ '%s' is invalid. Returning IS_OPTIONAL",""", """    if segment_requirement is None:
        fc_evaluators.text_to_be_evaluated_by_format_constraint.set(data_element.entered_input)
    try:
        evaluation_result = await evaluate_ahb_expression_tree(expression_tree)
    except InvalidExpressionError as invalid_expr_error:
        validation_logger.warning(
            "The expression '%s' @ '%s' is invalid. Returning IS_OPTIONAL",""")], ["C15"]),
    # ---- C16 ---------------------------------------------------------------------------------------------------------
    ("c16_invalid_pool_entry_not_selectable", [(VAL, """                        requirement_constraint_evaluation_result=RequirementConstraintEvaluationResult(
                            requirement_constraints_fulfilled=True,
                            requirement_is_conditional=True,""", """                        requirement_constraint_evaluation_result=RequirementConstraintEvaluationResult(
                            requirement_constraints_fulfilled=False,
                            requirement_is_conditional=True,""")], ["C16"]),
    ("c16_invalid_segment_level_keeps_parent_status", [(VAL, """        return SegmentLevelValidationResult(
            hints=invalid_expr_error.error_message, requirement_validation=RequirementValidationValue.IS_OPTIONAL
        )""", """        return SegmentLevelValidationResult(
            hints=invalid_expr_error.error_message,
            requirement_validation=parent_segment_group_requirement or RequirementValidationValue.IS_OPTIONAL,
        )""")], ["C16"]),
    # ---- C17 ---------------------------------------------------------------------------------------------------------
    ("c17_single_entry_shortcut_for_two", [(VAL, "        if len(data_element.value_pool) == 1:", "        if len(data_element.value_pool) <= 2 and not data_element.value_pool[-1].ahb_expression.strip().upper().startswith(\"X\"):")], ["C17"]),
    ("c17_unexpected_value_not_flagged_when_pool_member", [(VAL, """        elif data_element.entered_input:
            fc_validation_result = False""", """        elif data_element.entered_input:
            fc_validation_result = data_element.entered_input in [entry.qualifier for entry in data_element.value_pool]""")], ["C17"]),
    # ---- C19 ---------------------------------------------------------------------------------------------------------
    ("c19_none_hints_not_loadable", [("src/ahbicht/models/content_evaluation_result.py", "    hints = fields.Dict(keys=fields.String(allow_none=False), values=fields.String(allow_none=True), required=True)", "    hints = fields.Dict(keys=fields.String(allow_none=False), values=fields.String(allow_none=False), required=True)")], ["C19"]),
    ("c19_token_type_lost_for_repeatability", [(TS, """        return Token(data["type"], data["value"])""", """        return Token(data["type"] if data["type"] != "REPEATABILITY" else "CONDITION_KEY", data["value"])""")], ["C19"]),
    # ---- negative controls: behaviour preserving (w.r.t. the properties) refactorings - every check must stay silent ---------------
    (
        "ok_layered_left_recursive_grammar",
        [(CEP, """?expression: expression "O"i expression -> or_composition
            | expression "∨" expression -> or_composition
            | expression "X"i expression -> xor_composition
            | expression "⊻" expression -> xor_composition
            | expression "U"i expression -> and_composition
            | expression "∧" expression -> and_composition
            | expression expression -> then_also_composition
            | brackets
            | package
            | condition
            | time_condition
""", """?expression: expression "O"i xor_level -> or_composition
            | expression "∨" xor_level -> or_composition
            | xor_level
?xor_level: xor_level "X"i and_level -> xor_composition
            | xor_level "⊻" and_level -> xor_composition
            | and_level
?and_level: and_level "U"i then_level -> and_composition
            | and_level "∧" then_level -> and_composition
            | then_level
?then_level: then_level atom -> then_also_composition
            | atom
?atom: brackets
            | package
            | condition
            | time_condition
""")],
        ["C01", "C02", "C04", "C05", "C06", "C07", "C08", "C09", "C10", "C11", "C12", "C18", "C19"],
    ),
    (
        "ok_sequential_awaits_in_validate_segment",
        [(VAL, """        validation_results_in_context_data_elements = await asyncio.gather(*tasks)
""", """        validation_results_in_context_data_elements = [await asyncio.ensure_future(task) for task in tasks]
""")],
        ["C13", "C14", "C15", "C16", "C17"],
    ),
    (
        "ok_gather_if_necessary_sequential",
        [(UTIL, """    awaited_results = await asyncio.gather(*[x for x in results_and_awaitable_results if inspect.isawaitable(x)])
""", """    awaited_results = [await asyncio.ensure_future(x) for x in results_and_awaitable_results if inspect.isawaitable(x)]
""")],
        ["C09", "C12", "C06", "C16"],
    ),
    (
        "ok_tree_copy_via_pickle",
        [(UTIL, "        return _copy_tree(tree_result)", "        import pickle\n\n        return pickle.loads(pickle.dumps(tree_result))")],
        ["C11", "C01", "C10", "C19"],
    ),
    (
        "ok_cache_keyed_on_stripped_string",
        [(CEP, """    try:
        parsed_tree = _parser.parse(condition_expression)
        parsing_logger.debug("Successfully parsed '%s' as condition expression", condition_expression)""", """    try:
        parsed_tree = _parser.parse(condition_expression.strip(" ") if isinstance(condition_expression, str) else condition_expression)
        parsing_logger.debug("Successfully parsed '%s' as condition expression", condition_expression)""")],
        ["C11", "C01", "C02"],
    ),
    (
        "ok_different_error_texts",
        [(TAG, """            error_message="An empty or None string cannot be parsed as datetime",""", """            error_message="Leere Eingabe: kein Datum","""),
         (EB, """            self._expression = "Zwei exklusive Formatdefinitionen dürfen nicht gleichzeitig erfüllt sein\"""", """            self._expression = "Beide Formatdefinitionen sind erfüllt, es darf aber nur eine erfüllt sein\"""")],
        ["C20", "C08", "C07", "C09"],
    ),
    (
        "ok_evaluate_conditions_sequential",
        [(RCEV, """        results = await asyncio.gather(*tasks)

        result = dict(zip(condition_keys, results))
        return result
""", """        result = {}
        for condition_key, task in zip(condition_keys, tasks):
            result[condition_key] = await task
        return result
""")],
        ["C12", "C04", "C09", "C13"],
    ),
    (
        "ok_no_parse_cache_for_ahb_expressions",
        [(AEP, """@tree_copy
@lru_cache(maxsize=1024)
def parse_ahb_expression_to_single_requirement_indicator_expressions""", """@tree_copy
@lru_cache(maxsize=2)
def parse_ahb_expression_to_single_requirement_indicator_expressions""")],
        ["C11", "C09", "C02"],
    ),
    (
        "ok_fc_expression_always_bracketed",
        [(EB, """            self._expression = self._one_key_surrounded_by_brackets_pattern.sub(r"\\g<body>", self._expression)""", """            self._expression = str(self._expression)""")],
        ["C07", "C09", "C04", "C19"],
    ),
    (
        "ok_group_result_built_after_children",
        [(VAL, """    validation_results_in_context = [
        ValidationResultInContext(discriminator=segment_group.discriminator, validation_result=segment_group_validation)
    ]

    if segment_group_validation.requirement_validation is not RequirementValidationValue.IS_FORBIDDEN:""", """    own_result = ValidationResultInContext(discriminator=segment_group.discriminator, validation_result=segment_group_validation)
    validation_results_in_context = [own_result]

    if segment_group_validation.requirement_validation != RequirementValidationValue.IS_FORBIDDEN:""")],
        ["C13", "C14", "C16"],
    ),
    (
        "ok_unknown_checked_first_in_and",
        [(CN, """        if ConditionFulfilledValue.UNFULFILLED in (self, other):
            return ConditionFulfilledValue.UNFULFILLED
        if ConditionFulfilledValue.UNKNOWN in (self, other):
            return ConditionFulfilledValue.UNKNOWN
        if self == ConditionFulfilledValue.FULFILLED and other""", """        if ConditionFulfilledValue.UNFULFILLED in (self, other):
            return ConditionFulfilledValue.UNFULFILLED
        if self == ConditionFulfilledValue.UNKNOWN or other == ConditionFulfilledValue.UNKNOWN:
            return ConditionFulfilledValue.UNKNOWN
        if self == ConditionFulfilledValue.FULFILLED and other""")],
        ["C03", "C04", "C05"],
    ),
    (
        "ok_gastag_via_utc_arithmetic",
        [(TAG, """    german_local_time = _get_german_local_time(date_time)
    return german_local_time.hour == 6 and german_local_time.minute == 0 and german_local_time.second == 0""", """    german_local = date_time.astimezone(berlin)
    return (german_local.hour, german_local.minute, german_local.second) == (6, 0, 0)""")],
        ["C20"],
    ),
    (
        # legitimate: plain `def` evaluation methods run in a worker thread; asyncio.to_thread carries the contextvars context along
        "ok_sync_evaluation_methods_in_threads",
        [
            (RCEV, """        else:
            result = evaluation_method(evaluatable_data, context)
        self.logger.debug("The requirement constraint %s evaluated to %s", condition_key, result)""", """        else:
            result = await asyncio.to_thread(evaluation_method, evaluatable_data, context)
        self.logger.debug("The requirement constraint %s evaluated to %s", condition_key, result)"""),
            (FCEV, """        else:
            result = evaluation_method(text_to_be_evaluated)
        try:""", """        else:
            result = await asyncio.to_thread(evaluation_method, text_to_be_evaluated)
        try:"""),
        ],
        ["C04", "C08", "C09", "C12", "C13", "C15", "C16", "C20"],
    ),
    (
        # legitimate: the library yields to the event loop at a few more places (cooperative multitasking courtesy)
        "ok_extra_yields_inside_the_library",
        [
            (RCEV, """        if context is None:
            context = self._get_default_context()
        result: ConditionFulfilledValue""", """        if context is None:
            context = self._get_default_context()
        await asyncio.sleep(0)
        result: ConditionFulfilledValue"""),
            (FCEV, """        text_to_be_evaluated = text_to_be_evaluated_by_format_constraint.get()
        evaluation_method = self.get_evaluation_method(condition_key)""", """        text_to_be_evaluated = text_to_be_evaluated_by_format_constraint.get()
        await asyncio.sleep(0)
        evaluation_method = self.get_evaluation_method(condition_key)
        await asyncio.sleep(0)"""),
        ],
        ["C04", "C08", "C09", "C10", "C12", "C13", "C14", "C15", "C16", "C17"],
    ),
]


def make_diff(edits):
    out = []
    by_file = {}
    for fn, old, new in edits:
        by_file.setdefault(fn, []).append((old, new))
    for fn, pairs in by_file.items():
        path = os.path.join(REPO, fn)
        src = open(path, encoding="utf-8").read()
        dst = src
        for old, new in pairs:
            if dst.count(old) != 1:
                raise SystemExit(f"mutant text not found exactly once in {fn}: {old[:70]!r} (count {dst.count(old)})")
            dst = dst.replace(old, new)
        diff = difflib.unified_diff(src.splitlines(True), dst.splitlines(True), "a/" + fn, "b/" + fn)
        out.append("".join(diff))
    return "".join(out)


def main():
    mdir = os.path.join(HERE, "mutants")
    os.makedirs(mdir, exist_ok=True)
    for fn in os.listdir(mdir):
        if fn.endswith(".diff"):
            os.remove(os.path.join(mdir, fn))
    expect = {}
    for name, edits, checks in MUTANTS:
        with open(os.path.join(mdir, name + ".diff"), "w", encoding="utf-8") as f:
            f.write(make_diff(edits))
        expect[name] = checks
    with open(os.path.join(HERE, "expect.json"), "w", encoding="utf-8") as f:
        json.dump(expect, f, indent=1)
        f.write("\n")
    print(len(MUTANTS), "mutants written")


if __name__ == "__main__":
    sys.exit(main())
