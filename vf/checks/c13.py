"""C13 - validation covers the AHB tree once, in document order; parents dominate children."""

from vf import evaluators as E
from vf import sched
from vf import treebuild as TB
from vf.gen import ahb as GA
from vf.gen import expr as G
from vf.gen import tree as T
from vf.monitors import describe
from vf.ref import logic
from vf.ref import validation as RV

from ahbicht.validation.validation import validate_segment_level

POOLS = G.Pools(rc=["1", "2", "3", "4", "5", "6"], hint=["501", "502", "503"], fc=["901", "902", "903"])


def parts_factory(rng, p_invalid=0.0, soll_bias=0.35):
    def cond():
        if p_invalid and rng.random() < p_invalid:
            for _ in range(50):
                t = G.gen_eval(rng, rng.randint(1, 2), POOLS, max_leaves=5)
                if logic.structurally_invalid(t):
                    return t
        return G.gen_valid(rng, rng.randint(0, 2), POOLS, max_leaves=5, invalid_pred=logic.structurally_invalid)

    def parts_fn(kind):
        r = rng.random()
        if kind in ("G", "S") and r < 0.3:
            return [[rng.choice(["MUSS", "MUSS", "X", "KANN", "SOLL"]), None]]
        if kind == "E" and r < 0.5:
            return [["X", cond()]]
        parts = GA.gen_parts(rng, cond, max_parts=2, p_bare=0.1, p_prefix=0.2, prefix_ops=("X", "X", "O", "U"))
        if rng.random() < soll_bias:
            parts = [["SOLL" if ind in ("MUSS", "KANN") and rng.random() < 0.6 else ind, c] for ind, c in parts]
        return parts

    return parts_fn


def draw_assignment(rng, keys, p_unknown_tree=0.12):
    values = "FFUUK" if rng.random() < p_unknown_tree else "FU"
    return {k: rng.choice(values) for k in keys}


def depth_of(spec):
    def d(g):
        return 1 + max([d(x) for x in g["grps"]] + [1 if g["segs"] else 0])

    return max(d(g) for g in spec)


def compare(ctx, what, got, expected, wcase) -> bool:
    """got: summarised real results; expected: reference list"""
    got_d = [g[0] for g in got]
    exp_d = [e[0] for e in expected]
    if got_d != exp_d:
        if sorted(got_d) == sorted(exp_d):
            ctx.violation("document-order", f"{what}: reported order {got_d} differs from document order {exp_d}", case=wcase)
        elif len(got_d) != len(set(got_d)):
            dup = sorted({d for d in got_d if got_d.count(d) > 1})
            ctx.violation("reported-more-than-once", f"{what}: nodes {dup} are reported more than once", case=wcase)
        else:
            missing = [d for d in exp_d if d not in got_d]
            extra = [d for d in got_d if d not in exp_d]
            ctx.violation("coverage-or-pruning", f"{what}: missing from the report: {missing}; reported although below a forbidden node or unknown: {extra}", case=wcase)
        return False
    for g, e in zip(got, expected):
        if not RV.status_matches(g[1], e[1]):
            ctx.violation("status", f"{what}: node {g[0]} is reported {g[1]}, reference (own status combined with the parent's) says {e[1]}", case=wcase)
            return False
        if e[2] is not None:
            if g[2] != e[2]:
                ctx.violation("value-pool", f"{what}: value pool {g[0]} offers {g[2]}, reference says {e[2]}", case=wcase)
                return False
            if g[3] is not e[3]:
                ctx.violation("value-pool", f"{what}: value pool {g[0]} reports format flag {g[3]}, reference says {e[3]}", case=wcase)
                return False
    return True


async def check_tree(ctx, case):
    """case: {"spec", "asg", "soll", "schedule_seed"}"""
    import random

    spec, asg, soll = case["spec"], case["asg"], case["soll"]
    ctx.set_case("tree", case)
    ctx.count("trees")
    if case.get("pkg"):
        ctx.count("trees_written_with_packages")
    if any(len(n.get("segs", [])) > 32 or len(n.get("grps", [])) > 32 or len(n.get("des", [])) > 32 for n in T.walk(spec)) or len(spec) > 32:
        ctx.count("trees_with_a_very_wide_node")
    if spec and "line" in spec[0]:
        ctx.count("trees_with_line_indexes")
    nodes = list(T.walk(spec))
    try:
        expected = RV.ref_validate(spec, asg, soll)
    except RV.ExpectNotImplemented:
        expected = None
    world = E.World("c13", rc=asg, fc={k: True for k in POOLS.fc}, pkg=case.get("pkg", {}))
    sc = sched.Sched(sched.RandomChooser(random.Random(case["schedule_seed"])))
    out = await TB.validate(spec, world, soll, scheduler=sc)
    ctx.evaluation()
    ctx.count("release_steps", len(sc.order))
    if sc.max_parked >= 2:
        ctx.count("runs_with_concurrently_parked_awaitables")
    what = f"validate_deep_anwendungshandbuch(soll_is_required={soll}) under {asg}"
    if expected is None:
        ctx.count("runs_expecting_not_implemented")
        if out[0] == "ok" or not isinstance(out[1], NotImplementedError):
            ctx.violation("unknown-outcome-not-refused", f"{what}: a visited MUSS / prefix-operator node has an UNKNOWN outcome, documented behaviour is a NotImplementedError; got {describe(out)[:300]}")
        return
    if out[0] != "ok":
        kind = "spurious-not-implemented" if isinstance(out[1], NotImplementedError) else f"validation-raises-{type(out[1]).__name__}"
        ctx.violation(kind, f"{what} {describe(out)[:300]}")
        return
    got = TB.summarise(out[1])
    ctx.count("nodes_reported", len(got))
    pruned = len(nodes) - len(expected)
    if pruned:
        ctx.count("trees_with_pruning")
        ctx.count("nodes_pruned", pruned)
    if not compare(ctx, what, got, expected, case):
        return
    if depth_of(spec) >= 3 or pruned:
        ctx.nontrivial([spec, sorted(asg.items()), soll])
    if case["schedule_seed"] % 4 == 0:
        # the same run with the library's own dictionary based evaluators (create_hardcoded_evaluators), as most users set it up
        from vf import evalhelp as H
        from ahbicht.validation.validation import validate_deep_anwendungshandbuch

        cer = E.make_cer(asg, {k: True for k in POOLS.fc}, {k: "Hinweis " + k for k in POOLS.hint}, packages=case.get("pkg", {}))
        hout = await H.with_shipped_evaluators("hardcoded" if case["schedule_seed"] % 8 == 0 else "cer", cer, lambda: validate_deep_anwendungshandbuch(TB.build(spec), soll_is_required=soll))
        ctx.evaluation()
        ctx.count("runs_with_shipped_evaluators")
        if hout[0] != "ok":
            ctx.violation(f"validation-raises-{type(hout[1]).__name__}", f"{what} with the library's ready-made evaluators {describe(hout)[:300]}")
            return
        if not compare(ctx, what + " (ready-made evaluators of evaluator_factory)", TB.summarise(hout[1]), expected, case):
            return
    # the segment-level entry point on a sub-tree (no parent status)
    rng = random.Random(case["schedule_seed"] + 1)
    levels = [n for n in nodes if n["k"] in ("G", "S")]
    node = rng.choice(levels)
    sub = [node] if node["k"] == "G" else None
    try:
        if node["k"] == "G":
            sub_expected = RV.ref_validate(sub, asg, soll)
        else:
            fake = [{"k": "G", "d": "__root__", "x": T.kann_expression(), "grps": [], "segs": [node]}]
            # a segment validated on its own has no parent: take the reference with a required pseudo parent and drop the parent's line
            fake[0]["x"] = {"parts": [["MUSS", "Muss", None, None]]}
            sub_expected = RV.ref_validate(fake, asg, soll)[1:]
    except RV.ExpectNotImplemented:
        return
    obj = TB.build_group(node) if node["k"] == "G" else TB.build_segment(node)

    async def go():
        E.set_world(world)
        return await validate_segment_level(obj, soll_is_required=soll)

    sout = await sched.run_under(sched.Sched(sched.RandomChooser(rng)), go)
    ctx.evaluation()
    ctx.count("segment_level_calls")
    if sout[0] != "ok":
        ctx.violation(f"validation-raises-{type(sout[1]).__name__}", f"validate_segment_level({node['d']}) under {asg} {describe(sout)[:300]}")
        return
    if not compare(ctx, f"validate_segment_level({node['d']}, soll_is_required={soll}) under {asg}", TB.summarise(sout[1]), sub_expected, case):
        return
    # ... and with an explicit parent status (all three), as the recursion itself calls them
    from ahbicht.models.validation_values import RequirementValidationValue
    from ahbicht.validation.validation import validate_segment, validate_segment_group

    parent = rng.choice(["IS_REQUIRED", "IS_OPTIONAL", "IS_FORBIDDEN"])
    parent_expr = {"IS_REQUIRED": {"parts": [["MUSS", "Muss", None, None]]}, "IS_OPTIONAL": {"parts": [["KANN", "Kann", None, None]]}, "IS_FORBIDDEN": {"parts": [["MUSS", "Muss", ["rc", "6"], "[6]"]]}}[parent]
    fake = [{"k": "G", "d": "__root__", "x": parent_expr, "grps": [node] if node["k"] == "G" else [], "segs": [node] if node["k"] == "S" else []}]
    try:
        with_parent = RV.ref_validate(fake, dict(asg, **({"6": "U"} if parent == "IS_FORBIDDEN" else {})), soll)[1:]
    except RV.ExpectNotImplemented:
        return
    forbidden_parent = parent == "IS_FORBIDDEN"
    obj2 = TB.build_group(node) if node["k"] == "G" else TB.build_segment(node)

    async def go_parent():
        E.set_world(world)
        fn = validate_segment_group if node["k"] == "G" else validate_segment
        return await fn(obj2, RequirementValidationValue(parent), soll)

    pout = await sched.run_under(sched.Sched(sched.RandomChooser(rng)), go_parent)
    ctx.evaluation()
    ctx.count("calls_with_explicit_parent_status")
    ctx.count("explicit_parent:" + parent)
    if pout[0] != "ok":
        ctx.violation(f"validation-raises-{type(pout[1]).__name__}", f"validate_segment{'_group' if node['k'] == 'G' else ''}({node['d']}, {parent}) under {asg} {describe(pout)[:300]}")
        return
    got_parent = TB.summarise(pout[1])
    if forbidden_parent:
        # nothing below a forbidden node is reported; called directly with a forbidden parent the node itself may be reported (forbidden) or not
        if any(g[0] != node["d"] or g[1] != "IS_FORBIDDEN" for g in got_parent):
            ctx.violation("coverage-or-pruning", f"validate_segment{'_group' if node['k'] == 'G' else ''}({node['d']}, parent IS_FORBIDDEN) reports {[(g[0], g[1]) for g in got_parent][:8]}: below a forbidden parent nothing but the (forbidden) node itself may be reported", case=case)
        return
    compare(ctx, f"validate_segment{'_group' if node['k'] == 'G' else ''}({node['d']}, parent {parent}, soll_is_required={soll}) under {asg}", got_parent, with_parent, case)


async def check_sequence(ctx, case):
    """case: {"spec", "asgs": [...], "soll", "schedule_seed"}: the same AHB validated for several messages in a row from one coroutine"""
    import random

    spec, asgs, soll = case["spec"], case["asgs"], case["soll"]
    ctx.set_case("sequence", case)
    ctx.count("sequences")
    worlds = [E.World(f"c13-{i}", rc=asg, fc={k: True for k in POOLS.fc}, pkg=case.get("pkg", {})) for i, asg in enumerate(asgs)]
    sc = sched.Sched(sched.RandomChooser(random.Random(case["schedule_seed"])))
    out = await TB.validate_sequence(spec, worlds, soll, scheduler=sc)
    if out[0] != "ok":
        ctx.violation(f"validation-raises-{type(out[1]).__name__}", f"a sequence of {len(asgs)} validations {describe(out)[:300]}")
        return
    for i, (asg, res) in enumerate(zip(asgs, out[1])):
        ctx.evaluation()
        ctx.count("sequence_runs")
        what = f"validation #{i + 1} of {len(asgs)} awaited from one coroutine (soll_is_required={soll}) under {asg}"
        try:
            expected = RV.ref_validate(spec, asg, soll)
        except RV.ExpectNotImplemented:
            if res[0] == "ok" or not isinstance(res[1], NotImplementedError):
                ctx.violation("unknown-outcome-not-refused", f"{what}: expected NotImplementedError, got {describe(res)[:200]}")
                return
            continue
        if res[0] != "ok":
            ctx.violation("spurious-not-implemented" if isinstance(res[1], NotImplementedError) else f"validation-raises-{type(res[1]).__name__}", f"{what} {describe(res)[:300]}")
            return
        if not compare(ctx, what, TB.summarise(res[1]), expected, case):
            return
    ctx.nontrivial(["sequence", spec, [sorted(a.items()) for a in asgs], soll])


def gen_case(ctx, rng, p_invalid=0.0):
    gen = T.TreeGen(rng, parts_factory(rng, p_invalid=p_invalid), max_depth=2 if ctx.quick else rng.choice([2, 3, 4]), max_branch=3 if ctx.quick else rng.choice([3, 4, 5]))
    spec = gen.tree()
    if rng.random() < 0.04:
        # a very wide node: dozens of siblings below one group / segment / at the root
        which = rng.choice(["segments", "elements", "roots", "groups"])
        n = rng.choice([33, 40, 47, 65, 70])
        if which == "segments":
            spec[0]["segs"] = [gen.segment() for _ in range(n)]
        elif which == "groups":
            spec[0]["grps"] = [gen.group(0) for _ in range(n)]
        elif which == "roots":
            spec = spec + [gen.group(0) for _ in range(n)]
        else:
            seg = gen.segment()
            seg["des"] = [gen.data_element() for _ in range(n)]
            spec[0]["segs"].append(seg)
        spec[0]["x"] = T.make_expression([["MUSS", None]], rng)
    if rng.random() < 0.4:
        T.assign_line_indexes(spec, rng)
    if rng.random() < 0.25:
        # free-text data elements without discriminator (maus: "None if the data element was not found in the MIG")
        for node in T.walk(spec):
            if node["k"] == "F" and rng.random() < 0.3:
                node["nod"] = True
                ctx.count("free_texts_without_discriminator")
    pkg = T.abbreviate_spec(spec, rng) if rng.random() < 0.35 else {}
    return {"spec": spec, "asg": draw_assignment(rng, POOLS.rc), "soll": rng.random() < 0.5, "schedule_seed": rng.randrange(1 << 30), "pkg": pkg}


async def parent_child_table(ctx):
    """complete: every (indicator, outcome) of a parent x every (indicator, outcome) of its child x both flag values, for group > segment and
    segment > free-text element (thorough: three levels group > segment > element)"""
    combos = [(ind, out) for ind in ("MUSS", "SOLL", "KANN", "X") for out in "FUK"]
    levels = 2 if ctx.quick else 3
    idx = 0
    from itertools import product as _product

    for chain_ in _product(combos, repeat=levels):
        for soll in (True, False):
            for shape in (("G", "S") if levels == 2 else ("G", "S", "F"), ("S", "F") if levels == 2 else ("G", "G", "S")):
                idx += 1
                if not ctx.mine(idx):
                    continue
                asg = {str(i + 1): out for i, (_ind, out) in enumerate(chain_)}
                nodes = []
                for i, ((ind, _out), kind) in enumerate(zip(chain_, shape)):
                    x = {"parts": [[ind, T.CANON_SPELLING[ind], ["rc", str(i + 1)], f"[{i + 1}]"]]}
                    nodes.append((kind, x))
                # build the chain from the innermost node outwards
                inner = None
                for depth in range(len(nodes) - 1, -1, -1):
                    kind, x = nodes[depth]
                    d = f"{kind}{depth}"
                    if kind == "F":
                        node = {"k": "F", "d": d, "x": x, "input": "text"}
                    elif kind == "S":
                        node = {"k": "S", "d": d, "x": x, "des": [inner] if inner else []}
                    else:
                        node = {"k": "G", "d": d, "x": x, "grps": [inner] if inner and inner["k"] == "G" else [], "segs": [inner] if inner and inner["k"] == "S" else []}
                    inner = node
                spec = [inner] if inner["k"] == "G" else [{"k": "G", "d": "root", "x": {"parts": [["MUSS", "Muss", None, None]]}, "grps": [], "segs": [inner]}]
                await check_tree(ctx, {"spec": spec, "asg": asg, "soll": soll, "schedule_seed": idx * 8 + 1})
                ctx.count("parent_child_table_cases")


async def run(ctx):
    rng = ctx.rng
    E.install()
    await parent_child_table(ctx)
    for i in range(ctx.budget(500, 40_000)):
        case = gen_case(ctx, rng, p_invalid=0.05 if rng.random() < 0.3 else 0.0)
        await check_tree(ctx, case)
        if i % 100 == 0:
            ctx.sample({"tree": [(n["k"], n["d"], T.expr_string(n["x"]) if "x" in n else [T.expr_string(e["x"]) for e in n["entries"]]) for n in T.walk(case["spec"])][:14], "asg": case["asg"], "soll": case["soll"]}, cls="tree")


    for i in range(ctx.budget(60, 6_000)):
        case = gen_case(ctx, rng)
        seq = {"spec": case["spec"], "asgs": [draw_assignment(rng, POOLS.rc, p_unknown_tree=0.05) for _ in range(rng.randint(2, 4))], "soll": case["soll"], "schedule_seed": case["schedule_seed"], "pkg": case.get("pkg", {})}
        await check_sequence(ctx, seq)


async def replay(ctx, phase, case):
    E.install()
    if phase == "sequence":
        await check_sequence(ctx, case)
    else:
        await check_tree(ctx, case)
