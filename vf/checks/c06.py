"""C06 - expression validity is structural; the validity check and evaluation agree."""

from contextvars import ContextVar
from itertools import product

import inject

from vf import evalhelp as H
from vf import evaluators as E
from vf import sched
from vf.gen import ahb as GA
from vf.gen import expr as G
from vf.monitors import capture, describe
from vf.ref import logic

from ahbicht.content_evaluation import is_valid_expression
from ahbicht.content_evaluation.evaluationdatatypes import EvaluatableData, EvaluatableDataProvider
from ahbicht.content_evaluation.evaluator_factory import create_content_evaluation_result_based_evaluators
from ahbicht.content_evaluation.token_logic_provider import SingletonTokenLogicProvider, TokenLogicProvider
from ahbicht.expressions import InvalidExpressionError
from ahbicht.expressions.ahb_expression_parser import parse_ahb_expression_to_single_requirement_indicator_expressions
from ahbicht.expressions.ahb_expression_evaluation import evaluate_ahb_expression_tree
from ahbicht.expressions.condition_expression_parser import parse_condition_expression_to_tree
from ahbicht.expressions.expression_resolver import parse_expression_including_unresolved_subexpressions
from ahbicht.models.content_evaluation_result import ContentEvaluationResult, ContentEvaluationResultSchema


def classify(ast):
    """which clause of the validity rule an invalid expression exercises"""
    kinds = set()

    def walk(t):
        if G.is_leaf(t):
            return
        if t[0] == "then":
            walk(G.then_parts(t)[0])
            return
        walk(t[1])
        walk(t[2])
        if t[0] in ("or", "xor"):
            if G.has_rc(t[1]) != G.has_rc(t[2]):
                kinds.add("neutral-with-rc")
            if {t[1][0], t[2][0]} == {"hint", "fc"}:
                kinds.add("hint-with-fc")

    walk(ast)
    return kinds


POISON = [
    # (expression, keys left out of the input values): evaluations that fail for OTHER reasons after having met an invalid composition
    ("([1] O [501]) U ([502] U [503])[901]", []),  # invalid O, then a juxtaposition the evaluator does not implement
    ("([1] X [501]) U [2]", ["2"]),  # invalid X, then a key the caller did not provide
    ("([501] O [901]) U ([502] U [503])[902]", []),
    ("[1] U ([502] U [503])[901]", []),
    ("[7] U [8]", ["8"]),
]


def poison(ctx):
    """what happened in an earlier, failed evaluation must not leak into the next one (outcomes of these calls are not judged)"""
    from vf.monitors import REAL_OF
    from ahbicht.models.condition_nodes import Hint, RequirementConstraint, UnevaluatedFormatConstraint

    s, missing = ctx.rng.choice(POISON)
    out = capture(parse_condition_expression_to_tree, s)
    if out[0] != "ok":
        return
    nodes = {}
    for k in ("1", "2", "7", "8"):
        if k not in missing:
            nodes[k] = RequirementConstraint(condition_key=k, conditions_fulfilled=REAL_OF["F"])
    for k in ("501", "502", "503"):
        nodes[k] = Hint(condition_key=k, hint="h" + k)
    for k in ("901", "902"):
        nodes[k] = UnevaluatedFormatConstraint(condition_key=k)
    from ahbicht.expressions.requirement_constraint_expression_evaluation import evaluate_requirement_constraint_tree

    capture(evaluate_requirement_constraint_tree, out[1], nodes)
    ctx.count("failed_evaluations_in_between")


def check_direct(ctx, case):
    """the direct evaluator under every assignment"""
    ast, s = case["ast"], case["s"]
    ctx.set_case("direct", case)
    invalid = logic.structurally_invalid(ast)
    out = capture(parse_condition_expression_to_tree, s)
    if out[0] != "ok":
        ctx.violation("wellformed-expression-not-parsed", f"parse_condition_expression_to_tree({s!r}) {describe(out)[:200]}")
        return
    tree = out[1]
    rcs = G.keys_of(ast, "rc")
    asgs = case.get("assignments") or H.assignments_for(rcs, ctx.case_rng(case), full_up_to=6, sample=300)
    ctx.count("invalid_expressions" if invalid else "valid_expressions")
    for k in classify(ast):
        ctx.count("invalid:" + k)
    ctx.nontrivial(s)
    for asg in asgs:
        ctx.evaluation()
        kind, val = H.direct_state(tree, ast, asg)
        wcase = dict(case, assignments=[asg])
        if kind == "exc":
            ctx.violation(f"evaluation-raises-{type(val).__name__}", f"{s!r} under {asg}: {val!r:.300} (neither a result nor the invalid-expression error)", case=wcase)
            return
        if invalid and kind != "invalid":
            ctx.violation("invalid-expression-evaluated", f"{s!r} is structurally invalid ({sorted(classify(ast))}) but evaluates to {logic.NAME[val[0]]} under {asg}", case=wcase)
            return
        if not invalid and kind == "invalid":
            ctx.violation("valid-expression-raises", f"{s!r} is structurally valid but raises InvalidExpressionError under {asg}: {val.error_message[:200]}", case=wcase)
            return


# ---- AHB level: evaluate_ahb_expression_tree with harness evaluators, is_valid_expression with the CER based evaluators ----------
_cer_var: ContextVar = ContextVar("vf_c06_cer", default=None)
_schema = ContentEvaluationResultSchema()


def _cer_data():
    cer = _cer_var.get()
    if cer is None:
        raise RuntimeError("harness error: no content evaluation result set in this context")
    return EvaluatableData(body=_schema.dump(cer), edifact_format=E.FORMAT, edifact_format_version=E.VERSION)


def install_cer_evaluators():
    def configure(binder):
        binder.bind(TokenLogicProvider, SingletonTokenLogicProvider([*create_content_evaluation_result_based_evaluators(E.FORMAT, E.VERSION)]))
        binder.bind_to_provider(EvaluatableDataProvider, _cer_data)

    inject.clear_and_configure(configure)


def parts_invalid(parts) -> bool:
    return any(c is not None and logic.structurally_invalid(c) for _i, c in parts)


async def check_ahb(ctx, case):
    """case: {"parts": [[indicator, ast|None]], "s": rendered AHB expression}"""
    parts, s = case["parts"], case["s"]
    ctx.set_case("ahb", case)
    invalid = parts_invalid(parts)
    ctx.nontrivial(s)
    ctx.count("ahb_invalid" if invalid else "ahb_valid")
    rcs, fcs = [], []
    for _ind, c in parts:
        if c is not None:
            rcs += [k for k in G.keys_of(c, "rc") if k not in rcs]
            fcs += [k for k in G.keys_of(c, "fc") if k not in fcs]
    # (a) evaluate_ahb_expression_tree through the harness evaluators under every assignment (3 per requirement key, 2 per format key)
    E.install()
    pout = await sched.run_under(None, lambda: parse_expression_including_unresolved_subexpressions(s))
    if pout[0] != "ok":
        ctx.violation("wellformed-expression-not-parsed", f"parse_expression_including_unresolved_subexpressions({s!r}) {describe(pout)[:200]}")
        return
    combos = list(product(logic.assignments(rcs), logic.bool_assignments(fcs)))
    if len(combos) > 250:
        combos = ctx.case_rng(case).sample(combos, 250)
    for asg, fa in combos:
        ctx.evaluation()
        world = E.World("c06", rc=asg, fc=fa)

        async def go(world=world):
            E.set_world(world)
            # a fresh copy of the resolved tree per evaluation is not needed: transformers do not modify their input
            return await evaluate_ahb_expression_tree(pout[1])

        out = await sched.run_under(None, go)
        raised_invalid = out[0] == "exc" and isinstance(out[1], InvalidExpressionError)
        wcase = dict(case, only=[asg, fa])
        if out[0] == "exc" and not raised_invalid:
            ctx.violation(f"evaluation-raises-{type(out[1]).__name__}", f"evaluate_ahb_expression_tree({s!r}) under {asg}/{fa} {describe(out)[:300]}", case=wcase)
            return
        if invalid and not raised_invalid:
            ctx.violation("invalid-expression-evaluated", f"{s!r} contains a structurally invalid part but evaluate_ahb_expression_tree returned a result under {asg}/{fa}", case=wcase)
            return
        if not invalid and raised_invalid:
            ctx.violation("valid-expression-raises", f"{s!r} is valid but evaluate_ahb_expression_tree raised InvalidExpressionError under {asg}/{fa}", case=wcase)
            return
    # (b) the validity check itself (it enumerates all assignments on its own: only for few keys)
    if len(rcs) + len(fcs) <= (4 if ctx.quick else 5):
        install_cer_evaluators()
        try:
            ctx.evaluation()
            ctx.count("is_valid_expression_calls")

            r = ctx.case_rng(case).random()
            use_tree = r < 0.5
            unresolved = r < 0.2 and "P" not in s

            async def go2():
                if unresolved:
                    # ... or the tree as the AHB expression parser returns it (condition expressions still as text): the shape
                    # evaluate_ahb_expression_tree accepts as well
                    return await is_valid_expression(parse_ahb_expression_to_single_requirement_indicator_expressions(s), _cer_var.set)
                if use_tree:
                    # the documented alternative input: an already parsed (and resolved) tree
                    return await is_valid_expression(pout[1], _cer_var.set)
                return await is_valid_expression(s, _cer_var.set)

            if use_tree:
                ctx.count("is_valid_expression_calls_with_tree")
            if unresolved:
                ctx.count("is_valid_expression_calls_with_unresolved_ahb_tree")
            out = await sched.run_under(None, go2)
        finally:
            E.install()
        if out[0] != "ok":
            ctx.violation(f"is-valid-raises-{type(out[1]).__name__}", f"is_valid_expression({s!r}) {describe(out)[:300]}")
            return
        res = out[1]
        if invalid:
            ok = isinstance(res, tuple) and len(res) == 2 and res[0] is False and isinstance(res[1], str) and bool(res[1])
        else:
            ok = res == (True, None)
        if not ok:
            ctx.violation("is-valid-disagrees", f"is_valid_expression({s!r}) = {res!r}; the expression is structurally {'invalid' if invalid else 'valid'} -> expected {'(False, reason)' if invalid else '(True, None)'}")
        if not rcs and not fcs:
            ctx.count("is_valid_without_evaluatable_keys")


TIME_CONDITION_CASES = [
    # (expression, structurally invalid?)  [UB1] -> [932], [UB2] -> [934] (format constraints), [UB3] -> ([932][492]X[934][493])
    ("Muss [UB1] O [501]", True), ("Muss [501] X [UB2]", True), ("Muss [UB3] O [501]", True), ("Muss [1] O [UB1]", True), ("Kann [2] U ([501] O [UB2])", True),
    ("Muss [UB1] U [1]", False), ("Muss [1][UB1]", False), ("Soll [UB3] U [2]", False), ("Muss [1] O [2] Kann [3][UB2]", False), ("X [UB3]", False), ("Muss [UB1]", False),
]


async def check_time_conditions(ctx, case):
    """the validity check on expressions written with time conditions - as string and as the (unresolved) tree of the AHB parser"""
    s, invalid, as_tree = case["s"], case["invalid"], case["as_tree"]
    ctx.set_case("time-conditions", case)
    install_cer_evaluators()
    try:
        ctx.evaluation()
        ctx.count("is_valid_expression_calls_with_time_conditions")

        async def go():
            if as_tree == "resolved":
                # the resolver's own product when asked to leave the time conditions alone
                return await is_valid_expression(await parse_expression_including_unresolved_subexpressions(s, replace_time_conditions=False), _cer_var.set)
            if as_tree:
                return await is_valid_expression(parse_ahb_expression_to_single_requirement_indicator_expressions(s), _cer_var.set)
            return await is_valid_expression(s, _cer_var.set)

        out = await sched.run_under(None, go)
    finally:
        E.install()
    how = "the resolver's tree (replace_time_conditions=False) for " if as_tree == "resolved" else "the tree of the AHB expression parser for " if as_tree else ""
    if out[0] != "ok":
        ctx.violation(f"is-valid-raises-{type(out[1]).__name__}", f"is_valid_expression({how}{s!r}) {describe(out)[:300]}")
        return
    res = out[1]
    ok = (isinstance(res, tuple) and len(res) == 2 and res[0] is False and isinstance(res[1], str) and bool(res[1])) if invalid else res == (True, None)
    if not ok:
        ctx.violation("is-valid-disagrees", f"is_valid_expression({how}{s!r}) = {res!r}; with its time conditions written out the expression is structurally {'invalid' if invalid else 'valid'} -> expected {'(False, reason)' if invalid else '(True, None)'}")
        return
    ctx.nontrivial(["time-conditions", s, as_tree])


def gen_ahb_case(rng, max_keys):
    edge = rng.random() < 0.3  # keys from the ends of the ranges: repeatability constraints 2000-2499 are requirement constraints like any other

    def cond():
        pools = G.Pools(rc=["1", "007", "2499"] if edge else ["1", "2", "3"], hint=["501", "502"], fc=["0901", "902"] if edge else ["901", "902"])
        if rng.random() < 0.15:
            return G.gen_neutral_only(rng, rng.randint(1, 2), pools, max_leaves=4)
        return G.gen_eval(rng, rng.randint(0, 2), pools, max_leaves=5)

    for _ in range(100):
        parts = GA.gen_parts(rng, cond, max_parts=3, p_bare=0.05, prefix_ops=("X",))
        keys = set()
        for _i, c in parts:
            if c is not None:
                keys.update(G.keys_of(c, "rc"))
                keys.update(G.keys_of(c, "fc"))
        # a part that is a single format constraint / hint alone is fine; a whole expression without rc/fc keys makes the validity check vacuous
        if len(keys) <= max_keys:
            return {"parts": parts, "s": GA.render_parts(parts, rng)}
    return {"parts": [["MUSS", ["rc", "1"]]], "s": "Muss[1]"}


async def run(ctx):
    rng = ctx.rng
    E.install()
    for i in range(ctx.budget(1500, 150_000)):
        r = rng.random()
        ast = G.gen_eval(rng, rng.randint(1, 4), G.DEFAULT_POOLS if r < 0.85 else G.EDGE_POOLS, max_leaves=12 if r < 0.9 else 24)
        if i % 6 == 5:
            # hints and format constraints only: the "directly combines a single hint with a single format constraint" boundary
            ast = G.gen_neutral_only(rng, rng.randint(1, 3))
            if i % 12 == 5:
                ast = [rng.choice(["and", "and", "or"]), ["rc", rng.choice(G.RC_POOL)], ast] if rng.random() < 0.5 else ast
            ctx.count("neutral_only_expressions")
        case = {"ast": ast, "s": G.render(ast, rng)}
        if i % 5 == 0:
            poison(ctx)
        check_direct(ctx, case)
        if i % 400 == 0:
            ctx.sample({"s": case["s"], "structurally_invalid": logic.structurally_invalid(ast), "why": sorted(classify(ast))}, cls="direct")
    # ---- small scope, complete: EVERY expression of the domain with up to 3 (thorough: 4) leaves over {[1], [2], [501], [901], [902]}
    idx = 0
    for n in range(1, (3 if ctx.quick else 4) + 1):
        for ast in G.enumerate_asts(n):
            idx += 1
            if ctx.mine(idx):
                check_direct(ctx, {"ast": ast, "s": G.render(ast, rng, G.Style(p_redundant=0.0, flat_runs=0.0, spell=0, ws=""))})
                ctx.count("small_scope_expressions")
    ctx.note("small_scope", "every expression of the evaluation domain (valid and invalid) with up to %d leaves over 2 requirement keys, 1 hint, 2 format constraints, under all 3^k assignments" % (3 if ctx.quick else 4))
    if ctx.shard == 0:
        for s, invalid in TIME_CONDITION_CASES:
            for as_tree in (False, True, "resolved"):
                await check_time_conditions(ctx, {"s": s, "invalid": invalid, "as_tree": as_tree})
    for i in range(ctx.budget(200, 16_000)):
        case = gen_ahb_case(rng, max_keys=5)
        await check_ahb(ctx, case)
        if i % 50 == 0:
            ctx.sample({"s": case["s"], "invalid": parts_invalid(case["parts"])}, cls="ahb")


async def replay(ctx, phase, case):
    E.install()
    if phase == "time-conditions":
        await check_time_conditions(ctx, case)
    elif phase == "direct":
        check_direct(ctx, case)
    else:
        await check_ahb(ctx, case)
