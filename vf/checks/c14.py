"""C14 - soll_is_required is equivalent to rewriting SOLL at every level."""

import random

from vf import evaluators as E
from vf import sched
from vf import treebuild as TB
from vf.checks.c13 import POOLS, draw_assignment, parts_factory
from vf.gen import tree as T
from vf.monitors import describe

from ahbicht.validation.validation import validate_segment, validate_segment_level


def soll_nodes(spec):
    out = {"G": 0, "S": 0, "F": 0, "E": 0}
    for holder in T.expressions(spec):
        if any(p[0] == "SOLL" for p in holder["x"]["parts"]):
            out[holder.get("k", "E")] += 1
    return out


def outcome_summary(out):
    if out[0] == "ok":
        return "ok", TB.summarise(out[1])
    # a refusal is a NotImplementedError (the documented type) - subclasses of it are as good and compared as that
    return "exc", "NotImplementedError" if isinstance(out[1], NotImplementedError) else type(out[1]).__name__


async def check_tree(ctx, case):
    spec, asg = case["spec"], case["asg"]
    ctx.set_case("tree", case)
    ctx.count("trees")
    counts = soll_nodes(spec)
    for k, n in counts.items():
        ctx.count("soll_at:" + k, n)
    if sum(1 for n in counts.values() if n) >= 2:
        ctx.nontrivial([spec, sorted(asg.items())])
    rng = random.Random(case["schedule_seed"])
    for soll, replacement in ((True, "MUSS"), (False, "KANN")):
        rewritten = T.map_expressions(spec, lambda _holder, x: T.rewrite_indicator(x, "SOLL", replacement))
        results = []
        for which, tree_spec, flag in (("flag", spec, soll), ("rewritten", rewritten, soll), ("rewritten-other-flag", rewritten, not soll)):
            world = E.World("c14", rc=asg, fc={k: (int(k) % 2 == 0) for k in POOLS.fc}, pkg=case.get("pkg", {}))
            sc = sched.Sched(sched.RandomChooser(random.Random(rng.randrange(1 << 30)))) if which != "flag" or rng.random() < 0.5 else None
            out = await TB.validate(tree_spec, world, flag, scheduler=sc)
            ctx.evaluation()
            results.append(outcome_summary(out))
        ctx.count("relation_instances")
        if results[0][0] == "exc":
            other_flag = await TB.validate(spec, E.World("c14", rc=asg, fc={k: (int(k) % 2 == 0) for k in POOLS.fc}, pkg=case.get("pkg", {})), not soll, scheduler=None)
            if other_flag[0] == "ok":
                ctx.count("unknown_decided_by_soll_only")
        base = results[0]
        if base[0] == "exc" and base[1] not in ("NotImplementedError",):
            ctx.violation(f"validation-raises-{base[1]}", f"validate_deep_anwendungshandbuch(soll_is_required={soll}) under {asg} raised {base[1]}")
            return
        if base[0] == "exc":
            ctx.count("relation_instances_not_implemented")
        for other, name in ((results[1], f"SOLL rewritten to {replacement}"), (results[2], f"SOLL rewritten to {replacement}, flag {not soll} (no SOLL left: the flag must not matter)")):
            if other != base:
                detail = ""
                if base[0] == "ok" and other[0] == "ok":
                    diffs = [(a, b) for a, b in zip(base[1], other[1]) if a != b]
                    detail = f"first differing node: flag run {diffs[0][0] if diffs else base[1][:1]} vs rewritten run {diffs[0][1] if diffs else other[1][:1]}" if diffs or len(base[1]) != len(other[1]) else ""
                    if not diffs:
                        detail = f"different number of reported nodes: {len(base[1])} vs {len(other[1])}"
                else:
                    detail = f"flag run: {base[0]} {base[1] if base[0] == 'exc' else ''}; rewritten run: {other[0]} {other[1] if other[0] == 'exc' else ''}"
                ctx.violation("soll-flag-vs-rewriting", f"soll_is_required={soll} differs from the AHB with {name} under {asg}: {detail}", case=dict(case, soll=soll))
                return
    # a failed run must leave nothing behind: validate(soll=False) refusing with NotImplementedError (caught by the caller), then - in the same
    # task - the segment-level entry point called without a flag, i.e. with the documented default soll_is_required=True
    groups = [n for n in T.walk(spec) if n["k"] == "G" and any(p[0] == "SOLL" for h in T.expressions([n]) for p in h["x"]["parts"])]
    if groups and "K" in asg.values():
        group = rng.choice(groups)
        rewritten_group = T.map_expressions([group], lambda _h, x: T.rewrite_indicator(x, "SOLL", "MUSS"))[0]
        world = E.World("c14", rc=asg, fc={k: (int(k) % 2 == 0) for k in POOLS.fc}, pkg=case.get("pkg", {}))

        async def default_before_and_after_a_refused_run():
            from ahbicht.validation.validation import validate_deep_anwendungshandbuch

            E.set_world(world)
            before = await validate_segment_level(TB.build_group(group))  # no flag given: whatever the default is ...
            refused = False
            try:
                await validate_deep_anwendungshandbuch(TB.build(spec), soll_is_required=False)
            except NotImplementedError:
                refused = True
            after = await validate_segment_level(TB.build_group(group))  # ... it is the same default afterwards
            return refused, before, after

        a = await sched.run_under(None, default_before_and_after_a_refused_run)
        ctx.evaluation()
        if a[0] == "ok":
            refused, before, after = a[1]
            if refused:
                ctx.count("default_flag_after_failed_run")
            if TB.summarise(before) != TB.summarise(after):
                ctx.violation("soll-flag-vs-rewriting", f"validate_segment_level({group['d']}) called without a flag gives {TB.summarise(before)} before and {TB.summarise(after)} after a validation with soll_is_required=False that {'was refused' if refused else 'went through'} in the same task (under {asg}): the handling of SOLL depends on an earlier run"[:1000], case=case)
                return
        elif not isinstance(a[1], NotImplementedError):
            ctx.violation(f"validation-raises-{type(a[1]).__name__}", f"validate_segment_level({group['d']}) without a flag {describe(a)[:200]}", case=case)
            return
    # the segment entry points take the flag as well
    segs = [n for n in T.walk(spec) if n["k"] == "S" and (any(p[0] == "SOLL" for p in n["x"]["parts"]) or any(d["k"] == "F" and any(p[0] == "SOLL" for p in d["x"]["parts"]) for d in n["des"]))]
    if segs:
        seg = rng.choice(segs)
        for soll, replacement in ((True, "MUSS"), (False, "KANN")):
            rew = T.map_expressions([{"k": "G", "d": "g", "x": T.kann_expression(), "grps": [], "segs": [seg]}], lambda _h, x: T.rewrite_indicator(x, "SOLL", replacement))[0]["segs"][0]
            outs = []
            for tree_seg in (seg, rew):
                obj = TB.build_segment(tree_seg)
                world = E.World("c14", rc=asg, fc={k: (int(k) % 2 == 0) for k in POOLS.fc}, pkg=case.get("pkg", {}))

                async def go(obj=obj, world=world):
                    E.set_world(world)
                    if rng.random() < 0.5:
                        return await validate_segment(obj, None, soll)
                    return await validate_segment_level(obj, soll)

                outs.append(outcome_summary(await sched.run_under(None, go)))
                ctx.evaluation()
            ctx.count("segment_relation_instances")
            if outs[0] != outs[1]:
                ctx.violation("soll-flag-vs-rewriting", f"validate_segment({seg['d']}, soll_is_required={soll}) differs from the segment with SOLL rewritten to {replacement} under {asg}: {outs[0]} vs {outs[1]}"[:900], case=dict(case, soll=soll))
                return


def gen_case(ctx, rng):
    gen = T.TreeGen(rng, parts_factory(rng, soll_bias=0.8), max_depth=2 if ctx.quick else rng.choice([2, 3]), max_branch=3, p_pool=0.25)
    asg = draw_assignment(rng, POOLS.rc, p_unknown_tree=0.15)
    if rng.random() < 0.35:
        # exactly one UNKNOWN key: with some luck it is visited only below SOLL, where the flag decides between refusing (as MUSS) and optional (as KANN)
        asg = {k: rng.choice("FU") for k in POOLS.rc}
        asg[rng.choice(POOLS.rc)] = "K"
    spec = gen.tree()
    pkg = T.abbreviate_spec(spec, rng) if rng.random() < 0.3 else {}
    return {"spec": spec, "asg": asg, "schedule_seed": rng.randrange(1 << 30), "pkg": pkg}


async def run(ctx):
    rng = ctx.rng
    E.install()
    for i in range(ctx.budget(240, 24_000)):
        case = gen_case(ctx, rng)
        await check_tree(ctx, case)
        if i % 50 == 0:
            ctx.sample({"tree": [(n["k"], n["d"], T.expr_string(n["x"])) for n in T.walk(case["spec"]) if "x" in n][:12], "asg": case["asg"]}, cls="tree")


async def replay(ctx, phase, case):
    E.install()
    await check_tree(ctx, case)
