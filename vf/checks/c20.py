"""C20 - shipped date-time format constraints 931-935 judge the instant, not its notation."""

import asyncio
import re
from datetime import datetime

from vf import evaluators as E
from vf.monitors import capture, acapture, describe, exc_name
from vf.ref import berlin as B

from ahbicht.content_evaluation.fc_evaluators import text_to_be_evaluated_by_format_constraint
from ahbicht.expressions.format_constraint_expression_evaluation import format_constraint_evaluation
from ahbicht.models.condition_nodes import EvaluatedFormatConstraint

KEYS = ["931", "932", "933", "934", "935"]
_EVALUATOR = None


def evaluator():
    global _EVALUATOR  # pylint:disable=global-statement
    if _EVALUATOR is None:
        _EVALUATOR = E.HarnessFcEvaluator()
    return _EVALUATOR


def expected(key, t, off):
    if key == "931":
        return off == 0
    sod = B.local_seconds_of_day(t)
    return sod == (0 if key in ("932", "933") else 6 * 3600)


def notations(rng, t, n_random):
    """[(string, offset seconds)] - the conservative ISO core every supported Python parses"""
    out = []
    sep = lambda: rng.choice("TT ")  # noqa: E731
    frac = lambda: rng.choice(["", "", ".000", ".000000"])  # noqa: E731
    zero = rng.randrange(3)
    if zero == 0:
        out.append((B.fmt(t, 0, sep(), z=True, frac=frac()), 0))
    elif zero == 1:
        out.append((B.fmt(t, 0, sep(), frac=frac()), 0))
    else:
        out.append((B.fmt(t, 0, sep(), frac=frac(), neg_zero=True), 0))
    fixed = [3600, 7200, rng.randrange(-23 * 60 - 59, 24 * 60) * 60, rng.randrange(-86399, 86400), -3600, 19800, -36000, 20700]
    rng.shuffle(fixed)
    for off in fixed[:n_random]:
        out.append((B.fmt(t, off, sep(), frac=frac()), off))
    # further ISO-8601 spellings the interpreter's datetime.fromisoformat (Python >= 3.11) understands: basic format, offsets without colon
    # or with hours only, a decimal comma
    off = rng.choice([0, 3600, 7200, -18000, 19800])
    style = rng.randrange(4)
    if style == 0:
        out.append((B.fmt(t, off, basic=True, offset_style=rng.choice(["colon", "nocolon", "hours"])), off))
    elif style == 1:
        out.append((B.fmt(t, off, sep(), offset_style=rng.choice(["nocolon", "hours"])), off))
    elif style == 2:
        out.append((B.fmt(t, off, sep(), frac=",000"), off))
    else:
        out.append((B.fmt(t, off, basic=True, z=off == 0), off))
    return out


def check_string(ctx, s, t, off, phase):
    """all five constraints on one notation of instant t; returns the verdict tuple"""
    ev = evaluator()
    verdicts = []
    for key in KEYS:
        ctx.evaluation()
        out = capture(getattr(ev, "evaluate_" + key), s)
        case = {"s": s, "t": t, "off": off, "key": key}
        if out[0] != "ok":
            ctx.violation(f"raises-{type(out[1]).__name__}", f"evaluate_{key}({s!r}) {describe(out)}", phase=phase, case=case)
            verdicts.append(None)
            continue
        res = out[1]
        if not isinstance(res, EvaluatedFormatConstraint) or not isinstance(res.format_constraint_fulfilled, bool):
            ctx.violation("not-an-evaluated-format-constraint", f"evaluate_{key}({s!r}) returned {res!r}", phase=phase, case=case)
            verdicts.append(None)
            continue
        exp = expected(key, t, off)
        got = res.format_constraint_fulfilled
        verdicts.append(got)
        if got != exp:
            if key == "931":
                kind = "931-zero-offset-rejected" if exp else "931-nonzero-offset-accepted"
            else:
                kind = "xtag-verdict"
            ctx.violation(
                kind,
                f"evaluate_{key}({s!r}) = {got}, expected {exp} (instant {t}, written with offset {off}s, German local second of day {B.local_seconds_of_day(t)})",
                phase=phase,
                case=case,
            )
        if not got and not res.error_message:
            ctx.violation("unfulfilled-without-message", f"evaluate_{key}({s!r}) is unfulfilled but carries no error message", phase=phase, case=case)
    return verdicts


def check_instant(ctx, rng, t, n_notations, phase):
    per_notation = []
    for s, off in notations(rng, t, n_notations):
        v = check_string(ctx, s, t, off, phase)
        per_notation.append((s, v))
    # the "instant, not notation" clause, explicitly: 932-935 identical across all notations of one instant
    base = per_notation[0][1][1:]
    for s, v in per_notation[1:]:
        if v[1:] != base and None not in v and None not in per_notation[0][1]:
            ctx.violation("notation-dependence", f"verdicts of 932-935 differ between {per_notation[0][0]!r} {base} and {s!r} {v[1:]}", phase=phase, case={"t": t, "a": per_notation[0][0], "b": s})


def positive_instants(day):
    """the instants at which German local time reads 00:00:00 / 06:00:00 on local calendar day `day` (days since epoch)"""
    out = []
    for h in (0, 6):
        for guess in (3600, 7200):
            t = day * 86400 + h * 3600 - guess
            if B.local_seconds_of_day(t) == h * 3600 and (t + B.berlin_offset(t)) // 86400 == day:
                out.append((h, t))
    return out


async def run(ctx):
    rng = ctx.rng
    E.install()
    n_not = 3 if ctx.quick else 7
    # ---- phase 1: the complete positive set, with its nearest negatives ---------------------------------------
    d0, d1 = B.T_1996 // 86400, B.T_2038 // 86400
    for day in range(d0, d1):
        if not ctx.mine(day):
            continue
        for h, t in positive_instants(day):
            ctx.count("positive_instants")
            ctx.nontrivial(["pos", t])
            check_instant(ctx, rng, t, n_not, "positive")
            neighbours = [t - 1, t + 1, t + 3600, t - 3600, t + rng.randrange(2, 86399), t + 60, t - 60]
            if ctx.quick:
                neighbours = rng.sample(neighbours, 2)
            for n in neighbours:
                if B.T_1996 <= n < B.T_2038:
                    ctx.count("negative_neighbours")
                    check_instant(ctx, rng, n, 1 if ctx.quick else 3, "neighbour")
            if day % 3000 == 0:
                ctx.sample({"instant": t, "local_hour": h, "notations": [s for s, _ in notations(rng, t, 3)]}, cls="positive")
    # ---- phase 2: both DST switch days of every year, every quarter hour +-1 s --------------------------------
    idx = 0
    for year in range(1996, 2038):
        for bound in B.dst_bounds(year):
            idx += 1
            if not ctx.mine(idx):
                continue
            start = bound - 6 * 3600
            for q in range(0, 30 * 4):
                t = start + q * 900
                for dt in (0, -1, 1):
                    ctx.count("switch_day_instants")
                    ctx.nontrivial(["sw", t + dt])
                    check_instant(ctx, rng, t + dt, 1 if ctx.quick else 3, "switch-day")
    ctx.sample({"year": 2021, "cest_from_to_epoch": list(B.dst_bounds(2021))}, cls="switch-day")
    # ---- phase 3: uniform random instants ---------------------------------------------------------------------
    for _ in range(ctx.budget(6_000, 1_500_000)):
        t = rng.randrange(B.T_1996, B.T_2038)
        ctx.count("random_instants")
        ctx.nontrivial(["rnd", t])
        check_instant(ctx, rng, t, n_not, "random")
    # ---- phase 4: robustness - no string makes the constraints raise; fulfilled only if justified -------------
    for i in range(ctx.budget(60_000, 2_000_000)):
        s = hostile(rng)
        ctx.count("hostile_strings")
        check_hostile(ctx, s)
        if i % 5000 == 0:
            ctx.sample(s, cls="hostile")
    for s in FIXED_HOSTILE:
        check_hostile(ctx, s)
    # ---- phase 5: the same verdicts through format_constraint_evaluation("[93x]") with the text in the ContextVar
    for i in range(ctx.budget(600, 40_000)):
        r = rng.random()
        if r < 0.4:
            day = rng.randrange(d0, d1)
            pos = positive_instants(day)
            t = rng.choice(pos)[1] if pos else rng.randrange(B.T_1996, B.T_2038)
        else:
            t = rng.randrange(B.T_1996, B.T_2038)
        s, off = rng.choice(notations(rng, t, 4))
        await via_evaluation(ctx, s, t, off)


async def via_evaluation(ctx, s, t, off):
    world = E.World("c20")
    for key in KEYS:

        async def go(key=key):
            E.set_world(world)
            text_to_be_evaluated_by_format_constraint.set(s)
            return await format_constraint_evaluation(f"[{key}]")

        ctx.evaluation()
        ctx.count("via_format_constraint_evaluation")
        out = await acapture(asyncio.ensure_future(go()))
        case = {"s": s, "t": t, "off": off, "key": key}
        if out[0] != "ok":
            ctx.violation(f"raises-{type(out[1]).__name__}", f"format_constraint_evaluation('[{key}]') with text {s!r} {describe(out)}", phase="via-evaluation", case=case)
            continue
        exp = expected(key, t, off)
        got = out[1].format_constraints_fulfilled
        if got != exp:
            ctx.violation("xtag-verdict" if key != "931" else ("931-zero-offset-rejected" if exp else "931-nonzero-offset-accepted"), f"format_constraint_evaluation('[{key}]') with text {s!r} = {got}, expected {exp}", phase="via-evaluation", case=case)
        if (out[1].error_message is not None) != (not got):
            ctx.violation("message-presence", f"format_constraint_evaluation('[{key}]') with text {s!r}: fulfilled={got}, error_message={out[1].error_message!r}", phase="via-evaluation", case=case)


# ---------------------------------------------------------------------------------------------------------------
FIXED_HOSTILE = [
    # what datetime.fromisoformat reads leniently although it is no UTC offset / no instant
    "2022-01-01T00:00:00+00:60", "20220101T060000+0060", "2022-01-01T01:39:00+01:99", "2022-01-01T00:59:39+00:59:99", "2021-12-31T23:00:00+00:00:00.5",
    "2021-12-31T23:00:00-00:00:00.999999", "2021-12-31T23:00:00+00:00:00.000001", "2022-W01T00:00:00+01:00", "2022W01T000000+0100", "2021-W52T23:00:00Z",
    "2022-01-01T00:000+01:00", "2022-01-01T00:00:00x+01:00", "2022-01-01T00:00:00+01:00\x00", "20220701T04000Z", "2022-01-01\n00:00:00+01:00", "2022-01-01T05:00:010+00:00",
    "", " ", "Z", "+00:00", "T", "0001-01-01T00:00:00+01:00", "0001-01-01T00:00:00+00:00", "0001-01-01T00:00:00-01:00", "0001-01-01T00:59:59+01:00",
    "9999-12-31T23:59:59-01:00", "9999-12-31T23:59:59+00:00", "9999-12-31T23:59:59Z", "9999-12-31T23:00:00-00:30", "9999-12-31T22:00:00Z", "9999-12-31T23:59:59+01:00",
    "0001-01-01T00:00:00+23:59", "9999-12-31T23:59:59-23:59", "0001-01-01T01:00:00+02:00", "0001-01-01", "2022-01-01", "2022-01-01T00:00:00", "2022-01-01 00:00:00",
    "2022-01-01T24:00:00+00:00", "2022-01-01T23:59:60+00:00", "2022-02-30T00:00:00+00:00", "2022-13-01T00:00:00+00:00", "2022-01-01T00:00:00+24:00", "2022-01-01T00:00:00+25:00",
    "2022-01-01T00:00:00+00:00Z", "2022-01-01T00:00:00ZZ", "Z2022-01-01T00:00:00Z", "2022-01-01T00:00:00z", "2022-01-01T00:00+01:00", "2022-01-01T00+01:00", "20220101T000000+0100",
    "2022-W01-1T00:00:00+01:00", "2022-001T00:00:00+01:00", "-2022-01-01T00:00:00+01:00", "02022-01-01T00:00:00+01:00", "2022-01-01T00:00:00+0100", "2022-01-01T00:00:00+01",
    "2022-01-01T00:00:00,000+01:00", "2022-01-01T00:00:00.5+01:00", "2022-01-01T00:00:00.000001+01:00", "2022-01-01T00:00:00 +01:00", " 2022-01-01T00:00:00+01:00", "2022-01-01T00:00:00+01:00 ",
    "2022-01-01T00:00:00+01:00\n", "\x002022-01-01T00:00:00+01:00", "２０２２-01-01T00:00:00+01:00", "2022-01-01T00:00:00+٠١:00", "2022-01-01T00:00:00\ud800+01:00", "2022-01-01T00:00:00+01:00:00",
    "2022-01-01T00:00:00+01:00:30", "2022-01-01T00:00:00+01:00:00.5", "2022-01-01T00:00:00-00:00:01", "foo", "None", "null", "0", "1640991600", "2022-01-01T00:00:00+01:00" * 50, "9" * 5000,
]


def hostile(rng):
    r = rng.random()
    if r < 0.2:
        # edges of the representable range, written with offsets that push the instant over the edge (or not)
        y = rng.choice(["0001", "0001", "9999", "9999", "0002", "9998"])
        md = rng.choice(["01-01", "12-31", "01-02", "12-30"])
        off = rng.randrange(-86399, 86400)
        off = off if rng.random() < 0.3 else (off // 60) * 60
        sign = "-" if off < 0 else "+"
        a = abs(off)
        return "%s-%sT%02d:%02d:%02d%s%02d:%02d%s" % (y, md, rng.randrange(24), rng.randrange(60), rng.randrange(60), sign, a // 3600, a % 3600 // 60, (":%02d" % (a % 60)) if a % 60 else "")
    t = rng.randrange(B.T_1996, B.T_2038)
    base = B.fmt(t, rng.choice([0, 3600, 7200, -18000]), rng.choice("T "), z=False)
    if r < 0.35:
        return base[: rng.choice([10, 16, 19])]  # date only / no seconds / naive
    if r < 0.8:
        chars = list(base)
        alphabet = "0123456789-:+TZ .,z/\x00٠０W"
        for _ in range(rng.randint(1, 3)):
            q = rng.random()
            i = rng.randrange(len(chars) + 1)
            if q < 0.3 and chars:
                del chars[min(i, len(chars) - 1)]
            elif q < 0.6:
                chars.insert(i, rng.choice(alphabet))
            elif q < 0.85 and chars:
                chars[min(i, len(chars) - 1)] = rng.choice(alphabet)
            elif len(chars) > 1:
                j = min(i, len(chars) - 2)
                chars[j], chars[j + 1] = chars[j + 1], chars[j]
        return "".join(chars)
    return "".join(rng.choice("0123456789-:+TZ .abcXYZ\t\nä−") for _ in range(rng.randint(0, 30)))


_ISO_DATE = re.compile(r"(?:(\d{4})-(\d{2})-(\d{2})|(\d{4})(\d{2})(\d{2})|\d{4}-?W\d{2}-?[1-7])\Z", re.ASCII)  # (a week without a day names no instant)
_ISO_TIME = re.compile(r"(\d{2})(?:(?::(\d{2})(?::(\d{2}))?)|(?:(\d{2})(\d{2})?))?([.,]\d+)?\Z", re.ASCII)
_ISO_OFFSET = re.compile(r"(?:([Zz])|([+-])(\d{2})(?:(?::(\d{2})(?::(\d{2}))?)|(?:(\d{2})(\d{2})?))?(\.\d+)?)\Z", re.ASCII)


def justify(s):
    """
    Is a *fulfilled* verdict on s defensible at all? Only if s is an ISO-8601 / RFC-3339 datetime with UTC offset. Decided by a
    recogniser of its own (NOT by datetime.fromisoformat, which the code under test uses and which is lenient: any character as
    separator, one surplus character after a complete group, a trailing NUL). Generous where notations are debatable (calendar dates
    extended or basic, week dates, 'T' / 't' / blank, reduced precision, '.' or ',' fractions, offsets Z / +hh / +hhmm / +hh:mm[:ss]).
    Returns None (no such datetime), "unspecified" (a notation or instant for which the statement does not fix the verdict: week dates,
    fractions, outside 1996-2037) or (t, off).
    """
    if not isinstance(s, str) or len(s) < 12 or len(s) > 64:
        return None
    # date | separator | time | offset: the offset starts at the last 'Z' / 'z' or at the last sign after the separator
    sep = next((i for i in (10, 8, 7) if len(s) > i and s[i] in "Tt " and _ISO_DATE.match(s[:i])), None)
    if sep is None:
        return None
    rest = s[sep + 1 :]
    cut = max(rest.rfind("+"), rest.rfind("-"))
    if rest[-1:] in "Zz":
        cut = len(rest) - 1
    if cut <= 0:
        return None
    mt, mo = _ISO_TIME.match(rest[:cut]), _ISO_OFFSET.match(rest[cut:])
    md = _ISO_DATE.match(s[:sep])
    if not mt or not mo:
        return None
    if md.group(1) is None and md.group(4) is None:
        return "unspecified"  # week date
    y, m, d = (int(x) for x in (md.group(1, 2, 3) if md.group(1) else md.group(4, 5, 6)))
    hh = int(mt.group(1))
    mi = int(mt.group(2) or mt.group(4) or 0)
    se = int(mt.group(3) or mt.group(5) or 0)
    if not (1 <= m <= 12 and 1 <= d <= 31 and hh <= 23 and mi <= 59 and se <= 59):
        return None
    if d > [31, 29 if (y % 4 == 0 and (y % 100 != 0 or y % 400 == 0)) else 28, 31, 30, 31, 30, 31, 31, 30, 31, 30, 31][m - 1] or y < 1:
        return None
    if not mo.group(1) and mo.group(8):
        return None  # a UTC offset has no fraction of a second
    if mt.group(6):
        return "unspecified"
    if mo.group(1):
        off = 0
    else:
        oh, om, osec = int(mo.group(3)), int(mo.group(4) or mo.group(6) or 0), int(mo.group(5) or mo.group(7) or 0)
        if oh > 23 or om > 59 or osec > 59:
            return None
        off = (oh * 3600 + om * 60 + osec) * (-1 if mo.group(2) == "-" else 1)
    t = B.days_from_civil(y, m, d) * 86400 + hh * 3600 + mi * 60 + se - off
    if not B.T_1996 <= t < B.T_2038:
        return "unspecified"
    return t, off


def check_hostile(ctx, s):
    ev = evaluator()
    just = "not-computed"
    for key in KEYS:
        ctx.evaluation()
        case = {"s": s, "key": key}
        out = capture(getattr(ev, "evaluate_" + key), s)
        if out[0] != "ok":
            ctx.violation(f"raises-{type(out[1]).__name__}", f"evaluate_{key}({s!r}) {describe(out)}", phase="hostile", case=case)
            continue
        res = out[1]
        if not isinstance(res, EvaluatedFormatConstraint) or not isinstance(res.format_constraint_fulfilled, bool):
            ctx.violation("not-an-evaluated-format-constraint", f"evaluate_{key}({s!r}) returned {res!r}", phase="hostile", case=case)
            continue
        if not res.format_constraint_fulfilled:
            ctx.count("hostile_unfulfilled")
            if not res.error_message:
                ctx.violation("unfulfilled-without-message", f"evaluate_{key}({s!r}) is unfulfilled but carries no error message", phase="hostile", case=case)
            continue
        ctx.count("hostile_fulfilled")
        if just == "not-computed":
            just = justify(s)
        if just is None:
            ctx.violation("fulfilled-for-non-datetime", f"evaluate_{key}({s!r}) is fulfilled although the string is no ISO datetime with UTC offset", phase="hostile", case=case)
        elif just == "unspecified":
            ctx.count("hostile_fulfilled_unspecified")
        else:
            t, off = just
            ctx.nontrivial(["hostile-fulfilled", s])
            if not expected(key, t, off):
                ctx.violation("xtag-verdict" if key != "931" else "931-nonzero-offset-accepted", f"evaluate_{key}({s!r}) is fulfilled, reference says unfulfilled (instant {t}, offset {off})", phase="hostile", case=case)


async def replay(ctx, phase, case):
    E.install()
    if phase == "hostile":
        check_hostile(ctx, case["s"])
    elif phase == "via-evaluation":
        await via_evaluation(ctx, case["s"], case["t"], case["off"])
    elif "s" in case:
        check_string(ctx, case["s"], case["t"], case["off"], phase)
    else:
        check_instant(ctx, ctx.rng, case["t"], 7, phase)
