"""C10 - resolving packages and time conditions is exact bracketed substitution."""

import re

from vf import evaluators as E
from vf import sched
from vf.canon import canon, show
from vf.gen import ahb as GA
from vf.gen import expr as G
from vf.monitors import capture, describe
from vf.ref import syntax as S

from ahbicht.expressions.condition_expression_parser import parse_condition_expression_to_tree
from ahbicht.expressions.expression_resolver import expand_packages, expand_time_conditions, parse_expression_including_unresolved_subexpressions

PKG_KEYS = ["1P", "2P", "3P", "10P", "77P"]
PKG_RE = re.compile(r"\[[ \t\f\r\n]*([0-9]+P)([0-9]+\.\.[0-9]+)?[ \t\f\r\n]*\]")
UB_RE = re.compile(r"\[[ \t\f\r\n]*UB([123])[ \t\f\r\n]*\]")
UB_TEXT = {"1": "[932]", "2": "[934]", "3": "([932][492]X[934][493])"}


def substitute_packages(s, table):
    """one level: package expressions are inserted as they are (inner packages stay)"""
    unknown = []

    def repl(m):
        expr = table.get(m.group(1))
        if expr is None:
            unknown.append(m.group(1))
            return m.group(0)
        return "(" + expr + ")"

    return PKG_RE.sub(repl, s), unknown


def substitute_time_conditions(s):
    return UB_RE.sub(lambda m: UB_TEXT[m.group(1)], s)


def atom_c10(rng):
    r = rng.random()
    if r < 0.3:
        key = rng.choice(PKG_KEYS)
        if rng.random() < 0.4:
            if rng.random() < 0.35:
                # bounds with different numbers of digits (n <= m numerically, not as strings)
                a, b = rng.choice([(2, 10), (9, 10), (5, 100), (7, 12), (10, 11), (0, 10), (3, 30), (99, 100), (10, 10)])
                return "[%s%d..%d]" % (key, a, b)
            a = rng.choice([0, 0, 1, 2])
            return "[%s%d..%d]" % (key, a, max(1, a) + rng.choice([0, 1, 4]))
        return "[%s]" % key
    if r < 0.45:
        return "[UB%d]" % rng.randint(1, 3)
    return "[%s]" % rng.choice(G.RC_POOL + G.HINT_POOL + G.FC_POOL)


def gen_table(rng, p_unknown):
    table = {}
    for key in PKG_KEYS:
        if rng.random() < p_unknown:
            if rng.random() < 0.5:
                table[key] = None  # known key, unresolvable
            continue  # or not in the table at all
        toks = G.gen_tokens(rng, max_items=rng.randint(1, 4), depth=1, atom=atom_c10 if rng.random() < 0.4 else (lambda r: "[%s]" % r.choice(G.RC_POOL + G.HINT_POOL + G.FC_POOL)))
        table[key] = G.join_tokens(toks, rng if rng.random() < 0.5 else None)
    return table


async def resolve(s, table, resolve_packages, replace_time_conditions, scheduler=None, sync=frozenset()):
    world = E.World("c10", pkg=table)

    async def go():
        E.set_world(world)
        return await parse_expression_including_unresolved_subexpressions(s, resolve_packages=resolve_packages, replace_time_conditions=replace_time_conditions)

    out = await sched.run_under(scheduler, go)
    return out, world


def compare(ctx, what, got_tree, expected_string, expected_tree, is_ahb, wcase) -> bool:
    """exact equality of canonical trees; a difference that is only the association inside a same-operator run is counted, not reported"""
    g, e = canon(got_tree), canon(expected_tree)
    if g == e:
        ctx.count("exactly_equal")
        return True
    if not is_ahb:
        verdict, ref = S.parse(expected_string)
        if verdict != S.REJ and S.matches(g, ref):
            ctx.count("association_only_difference")
            return True
    ctx.violation("substitution", f"{what}: resolved tree {show(g)[:300]} differs from the tree of the substituted expression {expected_string!r}: {show(e)[:300]}", case=wcase)
    return False


async def check_case(ctx, case):
    """case: {"s", "table", "ahb": bool, optional "schedule_seed"}"""
    s, table, is_ahb = case["s"], case["table"], case["ahb"]
    rng = ctx.case_rng(case)
    ctx.set_case("resolve", case)
    ctx.count("cases")
    s1, unknown = substitute_packages(s, table)
    s2 = substitute_time_conditions(s1)
    occurrences = len(PKG_RE.findall(s))
    ubs = len(UB_RE.findall(s))
    if occurrences >= 2 or (occurrences and ubs):
        ctx.nontrivial([s, sorted(table.items(), key=lambda kv: kv[0])])
    ctx.count("package_occurrences", occurrences)
    ctx.count("time_condition_occurrences", ubs)
    if occurrences == 0 and ubs == 0:
        ctx.count("cases_without_abbreviation")
    # schedules: every completion order of the package resolver's answers for few occurrences, sampled otherwise
    schedules = []
    baseline, _w = await resolve(s, table, True, True)
    ctx.evaluation()
    outcomes = [("nothing yields", baseline)]
    if occurrences >= 2:
        if occurrences <= 4:
            async for sc, out, complete in sched.explore_all(lambda: _go(s, table), max_runs=30):
                outcomes.append((f"release order {sc.order}", out))
                schedules.append(tuple(map(str, sc.order)))
                ctx.evaluation()
            ctx.count("exhaustively_scheduled_cases")
        else:
            for _ in range(6):
                sc = sched.Sched(sched.RandomChooser(rng))
                out, _w = await resolve(s, table, True, True, scheduler=sc)
                outcomes.append((f"release order {sc.order}", out))
                schedules.append(tuple(map(str, sc.order)))
                ctx.evaluation()
        ctx.count("distinct_release_orders", len(set(schedules)))
    for label, out in outcomes:
        wcase = dict(case, note=label)
        if unknown:
            ctx.count("unknown_package_runs")
            if out[0] == "ok" or not isinstance(out[1], NotImplementedError):
                ctx.violation("unknown-package", f"{s!r} with table {table} ({label}): package {unknown} is unknown to the resolver, expected NotImplementedError, got: {describe(out)[:300]}", case=wcase)
                return
            continue
        if out[0] != "ok":
            ctx.violation(f"resolve-raises-{type(out[1]).__name__}", f"resolving {s!r} with table {table} ({label}) {describe(out)[:300]}", case=wcase)
            return
        exp, _w = await resolve(s2, {}, False, False)
        if exp[0] != "ok":
            raise AssertionError(f"harness error: substituted expression {s2!r} does not parse: {exp[1]!r}")
        if not compare(ctx, f"{s!r} with table {table} ({label})", out[1], s2, exp[1], is_ahb, wcase):
            return
    # the same resolution through the library's own package resolvers (dictionary based / ContentEvaluationResult based, the latter
    # taking its table from context local evaluatable data that change from call to call while the resolver instance stays the same)
    if rng.random() < 0.5:
        from vf import evalhelp as H

        known_table = {k: v for k, v in table.items() if v is not None}
        cer = E.make_cer({}, {}, {}, packages=known_table)
        # the result of ANOTHER message, built afterwards (same package keys, other expressions; it knows the package this one lacks):
        # it is never handed to anything
        E.make_cer({}, {}, {}, packages={**{k: "[499]" for k in known_table}, **{u: "[498]" for u in unknown}}, fill_in_place=True)
        ctx.count("results_of_other_messages_built_in_between")
        mode = rng.choice(["hardcoded", "hardcoded-mscons", "cer", "one-table-provider", "cer-resolver-without-format", "json-file-list"])
        ctx.count("shipped_resolver_mode:" + mode)
        shipped = await H.with_shipped_evaluators(mode, cer, lambda: parse_expression_including_unresolved_subexpressions(s, resolve_packages=True, replace_time_conditions=True))
        ctx.evaluation()
        ctx.count("resolutions_with_shipped_resolvers")
        wcase = dict(case, note=f"{mode} package resolver")
        if unknown:
            if shipped[0] == "ok" or not isinstance(shipped[1], NotImplementedError):
                ctx.violation("unknown-package", f"{s!r} with table {table} ({mode} resolver): package {unknown} is unknown, expected NotImplementedError, got: {describe(shipped)[:300]}", case=wcase)
                return
        elif shipped[0] != "ok":
            ctx.violation(f"resolve-raises-{type(shipped[1]).__name__}", f"resolving {s!r} with table {table} ({mode} resolver) {describe(shipped)[:300]}", case=wcase)
            return
        else:
            exp, _w = await resolve(s2, {}, False, False)
            if not compare(ctx, f"{s!r} with table {table} ({mode} resolver)", shipped[1], s2, exp[1], is_ahb, wcase):
                return
    # a content evaluation result WITHOUT package table (packages = None, the model's default): every package is unknown
    if occurrences and rng.random() < 0.15:
        from vf import evalhelp as H

        for mode in ("cer", "hardcoded"):
            built = capture(E.make_cer, {}, {}, {}, None, E.NO_PACKAGE_TABLE)
            if built[0] != "ok":
                break
            bare = await H.with_shipped_evaluators(mode, built[1], lambda: parse_expression_including_unresolved_subexpressions(s, resolve_packages=True, replace_time_conditions=True))
            ctx.evaluation()
            ctx.count("resolutions_without_package_table")
            if bare[0] == "ok" or not isinstance(bare[1], NotImplementedError):
                ctx.violation("unknown-package", f"{s!r} with the {mode} package resolver and a content evaluation result without package table: expected NotImplementedError, got: {describe(bare)[:300]}", case=dict(case, note=mode + " resolver, no package table"))
                return
    # a message of a format / version for which NO package table is registered: every package is unknown there
    if occurrences and rng.random() < 0.3:
        from vf import evalhelp as H

        cer = E.make_cer({}, {}, {}, packages={k: v for k, v in table.items() if v is not None})
        mode = rng.choice(["hardcoded-other-version", "hardcoded-other-format"])
        foreign = await H.with_shipped_evaluators(mode, cer, lambda: parse_expression_including_unresolved_subexpressions(s, resolve_packages=True, replace_time_conditions=True))
        ctx.evaluation()
        ctx.count("resolutions_for_a_format_without_package_table")
        if foreign[0] == "ok" or not isinstance(foreign[1], NotImplementedError):
            ctx.violation("unknown-package", f"{s!r}: the message is of a format/version ({mode}) for which no package table is registered (the only table belongs to {E.FORMAT}/{E.VERSION}); expected NotImplementedError, got: {describe(foreign)[:300]}", case=dict(case, note=mode))
            return
    if unknown:
        return
    # the flags on their own
    only_pkg, _w = await resolve(s, table, True, False)
    exp1, _w = await resolve(s1, {}, False, False)
    ctx.evaluation()
    if only_pkg[0] != "ok" or exp1[0] != "ok":
        ctx.violation("resolve-raises", f"resolve_packages only: {s!r}: {describe(only_pkg)[:200]} / {s1!r}: {describe(exp1)[:200]}")
        return
    compare(ctx, f"{s!r} (packages only)", only_pkg[1], s1, exp1[1], is_ahb, case)
    only_ub, _w = await resolve(s, table, False, True)
    s_ub = substitute_time_conditions(s)
    exp2, _w = await resolve(s_ub, {}, False, False)
    ctx.evaluation()
    if only_ub[0] != "ok" or exp2[0] != "ok":
        ctx.violation("resolve-raises", f"replace_time_conditions only: {s!r}: {describe(only_ub)[:200]} / {s_ub!r}: {describe(exp2)[:200]}")
        return
    compare(ctx, f"{s!r} (time conditions only)", only_ub[1], s_ub, exp2[1], is_ahb, case)
    # expand_packages / expand_time_conditions called directly on a parsed tree
    if not is_ahb:
        parsed = capture(parse_condition_expression_to_tree, s)
        if parsed[0] == "ok":
            world = E.World("c10", pkg=table)

            async def direct():
                E.set_world(world)
                return expand_time_conditions(await expand_packages(parsed[1]))

            dout = await sched.run_under(sched.Sched(sched.RandomChooser(rng)), direct)
            ctx.evaluation()
            if dout[0] != "ok":
                ctx.violation(f"resolve-raises-{type(dout[1]).__name__}", f"expand_time_conditions(expand_packages(parse({s!r}))) {describe(dout)[:200]}")
                return
            exp, _w = await resolve(s2, {}, False, False)
            compare(ctx, f"expand_time_conditions(expand_packages(parse({s!r})))", dout[1], s2, exp[1], is_ahb, case)


def _go(s, table):
    world = E.World("c10", pkg=table)

    async def go():
        E.set_world(world)
        return await parse_expression_including_unresolved_subexpressions(s, resolve_packages=True, replace_time_conditions=True)

    return go()


def gen_case(rng):
    r = rng.random()
    table = gen_table(rng, p_unknown=0.0 if rng.random() < 0.75 else 0.3)
    if r < 0.08:
        s = atom_c10(rng)  # root position
        return {"s": s, "table": table, "ahb": False}
    if r < 0.16:
        # neighbouring / repeated abbreviations
        atoms = [rng.choice(["[1P]", "[2P]", "[1P0..1]", "[UB3]", "[UB1]", "[3P]"]) for _ in range(rng.randint(2, 4))]
        sep = rng.choice(["", "", "U", "X", "O", " "])
        return {"s": sep.join(atoms), "table": table, "ahb": False}
    toks = G.gen_tokens(rng, max_items=rng.randint(1, 6), depth=2, atom=atom_c10)
    s = G.join_tokens(toks, rng if rng.random() < 0.6 else None)
    if r < 0.4:
        def cond_string(rr):
            return G.join_tokens(G.gen_tokens(rr, max_items=rr.randint(1, 4), depth=1, atom=atom_c10), rr if rr.random() < 0.5 else None)

        s = GA.render_free_ahb(rng, cond_string)
        if len(s) <= 4 and "[" not in s:
            s = "Muss" + cond_string(rng)
        return {"s": s, "table": table, "ahb": True}
    return {"s": s, "table": table, "ahb": False}


async def run(ctx):
    rng = ctx.rng
    E.install()
    for i in range(ctx.budget(1500, 60_000)):
        case = gen_case(rng)
        await check_case(ctx, case)
        if i % 120 == 0:
            s1, unknown = substitute_packages(case["s"], case["table"])
            ctx.sample({"s": case["s"], "table": case["table"], "substituted": substitute_time_conditions(s1), "unknown": unknown}, cls="resolve")


async def replay(ctx, phase, case):
    E.install()
    await check_case(ctx, case)
