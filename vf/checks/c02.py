"""C02 - the parsers accept exactly the documented language; everything else is a SyntaxError (and (False, message) from the validity check)."""

import asyncio

from vf import evaluators as E
from vf import sched
from vf.gen import ahb as GA
from vf.gen import expr as G
from vf.monitors import acapture, capture, describe
from vf.ref import syntax as S

from ahbicht.content_evaluation import is_valid_expression
from ahbicht.expressions.ahb_expression_parser import parse_ahb_expression_to_single_requirement_indicator_expressions
from ahbicht.expressions.condition_expression_parser import parse_condition_expression_to_tree
from ahbicht.expressions.expression_resolver import parse_expression_including_unresolved_subexpressions

TOKEN_ALPHABET = list("[]()UOXuox∧∨⊻0123456789P.B \t\n") + ["[1]", "[2]", "[901]", "[10P]", "[UB1]", "[3P0..1]", "U", "O", "..", "P", "UB"]
INDICATORS = ["Muss", "muss", "MUSS", "M", "m", "Soll", "soll", "S", "s", "Kann", "kann", "K", "k", "X", "x", "O", "o", "U", "u", "mUsS", "sOLL", "kANN"]
WEIRD = ["{", "}", "{0}", "{foo}", "%s", "%(x)s", "%", "\\", "$", "\x00", "\x0b", "\x1c", "\x85", "\xa0", " ", "　", "﻿", "ſ", "K", "ı", "İ", "ß", "١", "１", "१", "²", "①", "́", "\ud800", "\U0001d7d9", "a", "n", "l", "e", "é", "ß", "p", "b", "Ⅹ", "Ｘ", "Ｕ", "О", "Х"]
GARBAGE_ALPHABET = TOKEN_ALPHABET + INDICATORS + WEIRD

FIXED = [
    "{", "}", "{}", "{0}", "{foo}", "Muss [1] U {2}", "[1] U [2] }", "Muss{[1]}", "%s", "Muss %d", "[1]%", "[1]\\", "${x}", "Muss [1] {requirement_indicators}",
    "", " ", "\t", "\n", "   ", "[]", "[ ]", "()", "( )", "[", "]", "(", ")", "[1", "1]", "[1]]", "[[1]]", "([1]", "[1])", "[1]U", "U[1]", "[1]UU[2]", "[1]U O[2]", "[1] U", "[1]()", "()[1]",
    "[P]", "[1 P]", "[P1]", "[1P0..0]", "[1P1..0]", "[1P..1]", "[1P1..]", "[1P1.2]", "[1P1...2]", "[1P1..2..3]", "[1P 1..2]", "[1P1 ..2]", "[1P1.. 2]", "[1PP]", "[1P2P]", "[1p]", "[ub1]", "[UB0]", "[UB4]", "[UB]",
    "[UB12]", "[U B1]", "[UB 1]", "[1 2]", "[1,2]", "[1;2]", "[-1]", "[+1]", "[1.0]", "[1e3]", "[0x1]", "[١]", "[１]", "[1P٣..5]", "[1P3..٥]", "[1P1..1٣]", "[²]", "[1]∧∧[2]", "[1]&[2]", "[1]|[2]", "[1]^[2]", "[1]AND[2]",
    "[1]und[2]", "[1]V[2]", "[1]v[2]", "[1] u [2]", "[1]\x0bU[2]", "[1]\xa0U[2]", "[1] U[2]", "[1]U[2]\x00", "﻿[1]", "[1]\ud800", "Muss", "Muss ", " Muss", "Muss[1]", "Muss [1]", "Muss[1] ", " Muss[1]", "\tMuss[1]", "Muss[]",
    "Muss[", "Muss]", "Muss(", "Muss[1]U", "Muss [1]U", "Muss [1](", "Muss   ", "X [", "Muss[1]U[2", "Mus[2]", "Muss[2]C[3]", "MussMuss", "Muss[1]Muss", "Muss[1]Soll", "Muss[1]Soll[2]Kann", "MussSoll[1]", "M", "MM", "MS", "M[1]S[2]K",
    "X", "x", "XX", "X[1]", "x[1]", "XO[1]", "X[1]X", "X[1]X[2]", "Muss[1]X", "Muss[1]X[2]", "Muss[1] X", "X Muss[1]", "XMuss[1]", "[1]Muss", "[1]Muss[2]", "Muss[1]U[2]Soll[3]O[4]Kann[5]X[6]", "muss[1]u[2]soll[3]", "Mu[1]",
    "Mus", "Mu", "Musss[1]", "Sol[1]", "Kan[1]", "Kannn[1]", "MUSS[1]", "mUSS[1]", "ſ[1]", "Muſſ[1]", "ſoll[1]", "K[1]", "Kann[1]", "Ｍuss[1]", "Мuss[1]", "Muß[1]", "Muss[1]ſ", "Muss[1]K", "İ[1]", "Musś[1]", "Muss[1p]", "Muss[ub1]",
    "Muss[1]\x0b", "Muss\x0b[1]", "Muss\xa0[1]", "Muss[1]\xa0Soll[2]", "Muss[1] ", "Muss[١]", "Muss[1P٣..5]", "Muss[1]B", "Muss[1].", "Muss[1]P", "Muss.", "MussB", "MussP", "Muss1", "Muss 1", "Muss[1]1", "Muss U", "MussU",
    "MussU[1]", "Muss U[1]", "OU[1]", "UU[1]", "U U[1]", "O[1]O", "(" * 400 + "[1]" + ")" * 400, "(" * 400 + "[1]" + ")" * 399, "[1]" + "U[1]" * 60, "[1]" * 40, "Muss" + "(" * 200 + "[1]" + ")" * 200, "Muss[1]" * 30,
]


class _All(dict):
    """a table that answers every key with the same value"""

    def __init__(self, value):
        super().__init__()
        self.value = value

    def __missing__(self, key):
        return self.value


def mutate(s: str, rng, alphabet) -> str:
    chars = list(s)
    for _ in range(rng.randint(1, 3)):
        r = rng.random()
        i = rng.randrange(len(chars) + 1)
        if r < 0.28 and chars:
            del chars[min(i, len(chars) - 1)]
        elif r < 0.56:
            chars.insert(i, rng.choice(alphabet))
        elif r < 0.76 and chars:
            chars[min(i, len(chars) - 1)] = rng.choice(alphabet)
        elif r < 0.88 and len(chars) > 1:
            j = min(i, len(chars) - 2)
            chars[j], chars[j + 1] = chars[j + 1], chars[j]
        elif chars:
            j = min(i, len(chars) - 1)
            chars.insert(j, chars[j])
    return "".join(chars)


def wellformed_condition(rng) -> str:
    toks = G.gen_tokens(rng, max_items=rng.randint(1, 5), depth=rng.randint(0, 2))
    return G.join_tokens(toks, rng if rng.random() < 0.6 else None)


def hostile(rng):
    """(string, class)"""
    r = rng.random()
    if r < 0.12:
        return wellformed_condition(rng), "wellformed-condition"
    if r < 0.25:
        return GA.render_free_ahb(rng, wellformed_condition), "wellformed-ahb"
    alphabet = TOKEN_ALPHABET if rng.random() < 0.7 else GARBAGE_ALPHABET
    if r < 0.45:
        return mutate(wellformed_condition(rng), rng, alphabet), "near-miss-condition"
    if r < 0.7:
        return mutate(GA.render_free_ahb(rng, wellformed_condition), rng, alphabet + INDICATORS), "near-miss-ahb"
    if r < 0.85:
        return "".join(rng.choice(TOKEN_ALPHABET + INDICATORS[:6]) for _ in range(rng.randint(0, 10))), "garbage-tokens"
    return "".join(rng.choice(GARBAGE_ALPHABET) for _ in range(rng.randint(0, 9))), "garbage-unicode"


def nonascii_kind(s: str) -> str:
    return "-nonascii" if any((not ch.isascii()) and ch not in "∧∨⊻" for ch in s) else ""


def judge(ctx, entry: str, s: str, verdict: str, out, strict_reject=True):
    """compare what a parsing entry point did with the three-valued reference verdict"""
    if out[0] == "exc" and not isinstance(out[1], SyntaxError):
        ctx.violation(f"{entry}-raises-{type(out[1]).__name__}", f"{entry}({s!r}) {describe(out)[:300]} - only SyntaxError may escape (reference verdict: {verdict})")
        return
    accepted = out[0] == "ok"
    ctx.count(f"{entry}:{'accepted' if accepted else 'rejected'}:{verdict}")
    if verdict == S.ACC and not accepted:
        ctx.violation(f"{entry}-rejects-wellformed", f"{entry}({s!r}) raised SyntaxError although the string is in the documented language")
    elif verdict == S.REJ and accepted and strict_reject:
        ctx.violation(f"{entry}-accepts-malformed{nonascii_kind(s)}", f"{entry}({s!r}) returned a tree although the string is malformed: {str(out[1])[:200]}")


async def check_string(ctx, s: str, cls: str = "replay"):
    ctx.set_case("string", {"s": s, "class": cls})
    ctx.count("strings")
    ctx.count("class:" + cls)
    cv = S.cond_verdict(s)
    av, _parts = S.split_ahb(s)
    rv = S.resolver_verdict(s)
    # 1. condition expression parser
    ctx.evaluation()
    first = capture(parse_condition_expression_to_tree, s)
    judge(ctx, "condition-parser", s, cv, first)
    if ctx.rng.random() < 0.15:
        # the same string again (after whatever happened in between, a failure included): same verdict
        ctx.count("repeated_calls")
        if ctx.rng.random() < 0.5:
            again = capture(parse_condition_expression_to_tree, s)
        else:
            # the string passed by keyword, as the signature allows - twice, so that the second call finds the first one's cache entry
            ctx.count("repeated_calls_by_keyword")
            capture(parse_condition_expression_to_tree, condition_expression=s)
            again = capture(parse_condition_expression_to_tree, condition_expression=s)
        judge(ctx, "condition-parser", s, cv, again)
        if first[0] != again[0]:
            ctx.violation("verdict-changes-on-repetition", f"condition-parser({s!r}): first call {describe(first)[:120]}, second call {describe(again)[:120]}")
    # 2. AHB expression parser: the condition part is only checked for its character set there, so only MUST_ACCEPT and the exception type are asserted
    ctx.evaluation()
    ahb_out = capture(parse_ahb_expression_to_single_requirement_indicator_expressions, s)
    judge(ctx, "ahb-parser", s, av, ahb_out, strict_reject=False)
    # 3. combined resolver
    ctx.evaluation()
    out = await acapture(parse_expression_including_unresolved_subexpressions(s))
    judge(ctx, "resolver", s, rv, out)
    # 4. validity check: malformed input is reported as (False, message); it never raises for malformed input
    if rv == S.REJ or (out[0] == "exc"):
        ctx.evaluation()
        ctx.count("is_valid_expression_on_malformed")

        async def go():
            # a permissive world (every requirement constraint fulfilled): if the malformed string is wrongly taken for well-formed the
            # evaluation goes through and the wrong (True, None) becomes visible instead of a harness artefact
            E.set_world(E.World("c02", rc=_All("F"), fc=_All(True)))
            return await is_valid_expression(s, lambda cer: None)

        vout = await sched.run_under(None, go)
        if vout[0] != "ok":
            ctx.violation(f"is-valid-raises-{type(vout[1]).__name__}", f"is_valid_expression({s!r}) {describe(vout)[:300]} - malformed input must be reported as (False, message)")
        elif rv == S.REJ:
            res = vout[1]
            if not (isinstance(res, tuple) and len(res) == 2 and res[0] is False and isinstance(res[1], str) and res[1]):
                ctx.violation(f"is-valid-not-false{nonascii_kind(s)}", f"is_valid_expression({s!r}) returned {res!r}, expected (False, message)")
    # 4b. ... also when the input is the tree of the AHB parser (indicator structure fine, condition part malformed)
    if rv == S.REJ and ahb_out[0] == "ok":
        ctx.evaluation()
        ctx.count("is_valid_expression_on_ahb_tree_with_malformed_condition")

        async def go_tree():
            E.set_world(E.World("c02", rc=_All("F"), fc=_All(True)))
            return await is_valid_expression(ahb_out[1], lambda cer: None)

        vout = await sched.run_under(None, go_tree)
        if vout[0] != "ok":
            ctx.violation(f"is-valid-raises-{type(vout[1]).__name__}", f"is_valid_expression(the tree of the AHB expression parser for {s!r}) {describe(vout)[:300]} - a malformed condition part must be reported as (False, message)")
        else:
            res = vout[1]
            if not (isinstance(res, tuple) and len(res) == 2 and res[0] is False and isinstance(res[1], str) and res[1]):
                ctx.violation(f"is-valid-not-false{nonascii_kind(s)}", f"is_valid_expression(the tree of the AHB expression parser for {s!r}) returned {res!r}, expected (False, message)")
    if rv != S.REJ or cv != S.REJ or (s and (s[0] in "[(" or s[0] in "MmSsKkXxOoUu")):
        ctx.nontrivial(s)
        ctx.count("nontrivial_strings")


async def check_package_failure_path(ctx, case):
    """case: {"s": well-formed expression with a package, "bad": malformed package expression, "good": well-formed one}"""
    s, bad, good = case["s"], case["bad"], case["good"]
    ctx.set_case("package-failure-path", case)
    ctx.count("package_failure_sequences")

    async def resolve(table, resolve_packages=True):
        world = E.World("c02", pkg=table)

        async def go():
            E.set_world(world)
            return await parse_expression_including_unresolved_subexpressions(s, resolve_packages=resolve_packages)

        return await sched.run_under(None, go)

    key = case["key"]
    first = await resolve({key: bad})
    ctx.evaluation()
    if first[0] == "ok":
        # a malformed package expression must not be accepted silently (which exception type reports a broken package TABLE - as opposed to a
        # broken input string - is not fixed by the property: SyntaxError today; only counted)
        ctx.violation("malformed-package-expression-not-rejected", f"resolver({s!r}) with package {key} = {bad!r} (malformed) {describe(first)[:200]}; expected an error")
        return
    ctx.count("malformed_package_reported_as:" + type(first[1]).__name__)
    for what, out in (("with the repaired package table", await resolve({key: good})), ("without package resolution", await resolve({}, resolve_packages=False))):
        ctx.evaluation()
        if out[0] != "ok":
            ctx.violation("resolver-rejects-wellformed", f"resolver({s!r}) {what} {describe(out)[:200]} - the string itself is well-formed; an earlier call failed because package {key} was {bad!r}")
            return


def _deep(n, f):
    return f() if n == 0 else _deep(n - 1, f)


def check_deep_call_stack(ctx, case):
    """the cached parsers called from deep inside the caller's own recursion (case: {"depth", "operands", "op", "ahb"}): a well-formed
    string is a tree there as well - the parsers must not need a number of stack frames that grows with the length of the expression
    (the pinned code did not; lark's Earley parser and tree builder are iterative)"""
    ctx.set_case("deep-call-stack", case)
    chain = case["op"].join("[%d]" % (i + 1) for i in range(case["operands"]))
    s = ("Muss " + chain) if case["ahb"] else chain
    fn = parse_ahb_expression_to_single_requirement_indicator_expressions if case["ahb"] else parse_condition_expression_to_tree
    for attempt in ("first call", "second call (cache hit)"):
        ctx.evaluation()
        ctx.count("calls_from_a_deep_call_stack")
        out = capture(_deep, case["depth"], lambda: fn(s))
        if out[0] != "ok":
            kind = "rejects-wellformed" if isinstance(out[1], SyntaxError) else f"raises-{type(out[1]).__name__}"
            ctx.violation(("ahb-parser-" if case["ahb"] else "condition-parser-") + kind, f"{fn.__name__}(<{case['operands']} operands joined by {case['op']!r}>) called {case['depth']} frames deep, {attempt}: {describe(out)[:200]}")
            return
    ctx.nontrivial(["deep", s[:40], case["depth"]])


async def run(ctx):
    rng = ctx.rng
    E.install()
    if ctx.shard == 0:
        for depth, operands in ((700, 100), (650, 90)) if ctx.quick else ((700, 100), (650, 90), (600, 110), (500, 150), (0, 260)):
            for ahb in (False, True):
                check_deep_call_stack(ctx, {"depth": depth, "operands": operands, "op": rng.choice(["U", "O", "X", " "]), "ahb": ahb})
    for i in range(ctx.budget(60, 3_000)):
        key = rng.choice(["1P", "7P", "123P"])
        inner = wellformed_condition(rng)
        s = rng.choice(["Muss ", "X", "", "Kann[1]U", "([2]O"]) + f"[{key}]"
        s += ")" if s.startswith("([2]O") else ""
        bad = mutate(inner, rng, TOKEN_ALPHABET)
        if S.cond_verdict(bad) != S.REJ:
            bad = inner + "U"
        await check_package_failure_path(ctx, {"s": s, "key": key, "bad": bad, "good": inner})
    if ctx.shard == 0:
        for s in FIXED:
            await check_string(ctx, s, "fixed")
    for i in range(ctx.budget(7_000, 700_000)):
        s, cls = hostile(rng)
        await check_string(ctx, s, cls)
        if i % 1500 == 0:
            ctx.sample({"s": s, "class": cls, "condition": S.cond_verdict(s), "ahb": S.split_ahb(s)[0], "resolver": S.resolver_verdict(s)}, cls=cls)


async def replay(ctx, phase, case):
    E.install()
    if phase == "deep-call-stack":
        check_deep_call_stack(ctx, case)
    elif phase == "package-failure-path":
        await check_package_failure_path(ctx, case)
    else:
        await check_string(ctx, case["s"], case.get("class", "replay"))
