"""C03 - four-valued condition logic: algebraic laws, README truth tables, UNKNOWN soundness and tightness (exhaustive)."""

import os
import re
from itertools import product

from vf import repo
from vf.gen import expr as G
from vf.monitors import CFV, REAL_OF, REF_OF, OperatorMonitor, capture, describe
from vf.ref import logic
from vf.ref.logic import F, K, N, U

from ahbicht.expressions.condition_expression_parser import parse_condition_expression_to_tree
from ahbicht.expressions.requirement_constraint_expression_evaluation import evaluate_requirement_constraint_tree
from ahbicht.models.condition_nodes import Hint, RequirementConstraint, UnevaluatedFormatConstraint

OPS = {"and": lambda a, b: a & b, "or": lambda a, b: a | b, "xor": lambda a, b: a ^ b}
BOOL = {"and": lambda a, b: a and b, "or": lambda a, b: a or b, "xor": lambda a, b: a != b}
VALS = [F, U, K, N]
README_WORD = {"true": F, "false": U, "neutral": N, "unknown": K}


def real_op(op, a, b):
    """the real operator on reference states; returns ("ok", ref state) / ("bad", description)"""
    out = capture(OPS[op], REAL_OF[a], REAL_OF[b])
    if out[0] != "ok" or not isinstance(out[1], CFV):
        return "bad", describe(out)
    return "ok", REF_OF[out[1]]


def parse_readme_tables():
    """
    Both RST dialects used in README.rst. Returns {op: [(a, b, result)]} for rows that carry a value; rows reading
    'does not make sense' carry none and are skipped.
    """
    path = os.path.join(repo.REPO, "README.rst")
    with open(path, encoding="utf-8") as f:
        text = f.read()
    tables = {}
    sections = re.split(r"``(and|or|xor)_composition``\n\^+\n", text)
    # sections = [before, 'and', body, 'or', body, 'xor', body]
    for i in range(1, len(sections) - 1, 2):
        op, body = sections[i], sections[i + 1]
        rows = []
        for line in body.splitlines():
            if line.startswith("Link to") or line.startswith("Content Evaluation"):
                break
            cells = None
            if line.startswith("|"):
                cells = [c.strip() for c in line.strip().strip("|").split("|")]
            elif re.match(r"^(Neutral|Unknown|True|False)\s", line):
                cells = line.split()
            if not cells or len(cells) < 3:
                continue
            a, b, res = cells[0].lower(), cells[1].lower(), cells[2].lower()
            if a in README_WORD and b in README_WORD and res in README_WORD:
                rows.append((README_WORD[a], README_WORD[b], README_WORD[res]))
        tables[op] = rows
    return tables


def replacements(values):
    """all ways of replacing UNKNOWN by FULFILLED / UNFULFILLED"""
    idx = [i for i, v in enumerate(values) if v == K]
    for combo in product((F, U), repeat=len(idx)):
        r = list(values)
        for i, v in zip(idx, combo):
            r[i] = v
        yield tuple(r)


def obligations(ctx):
    """yields (law, op, operands, ok, message) for the complete finite space"""
    table = {}
    for op in OPS:
        for a, b in product(VALS, repeat=2):
            status, val = real_op(op, a, b)
            table[(op, a, b)] = val if status == "ok" else None
            yield "totality", op, (a, b), status == "ok", f"{logic.NAME[a]} {op} {logic.NAME[b]}: {val}"
    bad = {k for k, v in table.items() if v is None}

    def val(op, a, b):
        return table[(op, a, b)]

    for op in OPS:
        for a, b in product(VALS, repeat=2):
            if (op, a, b) in bad or (op, b, a) in bad:
                continue
            yield "commutativity", op, (a, b), val(op, a, b) == val(op, b, a), f"{a} {op} {b} = {val(op, a, b)} but {b} {op} {a} = {val(op, b, a)}"
        for x in VALS:
            if (op, N, x) not in bad:
                yield "neutral-identity-left", op, (N, x), val(op, N, x) == x, f"N {op} {x} = {val(op, N, x)}"
            if (op, x, N) not in bad:
                yield "neutral-identity-right", op, (x, N), val(op, x, N) == x, f"{x} {op} N = {val(op, x, N)}"
        for a, b in product((F, U), repeat=2):
            if (op, a, b) in bad:
                continue
            expect = F if BOOL[op](a == F, b == F) else U
            yield "boolean-agreement", op, (a, b), val(op, a, b) == expect, f"{a} {op} {b} = {val(op, a, b)}, Boolean logic says {expect}"
        for a, b, c in product(VALS, repeat=3):
            try:
                left = val(op, val(op, a, b), c)
                right = val(op, a, val(op, b, c))
            except KeyError:
                continue
            if left is None or right is None:
                continue
            yield "associativity", op, (a, b, c), left == right, f"({a} {op} {b}) {op} {c} = {left} but {a} {op} ({b} {op} {c}) = {right}"
        # UNKNOWN: sound (a definite result is the result for every replacement) and tight (UNKNOWN only if two replacements disagree)
        for a, b in product(VALS, repeat=2):
            if K not in (a, b) or (op, a, b) in bad:
                continue
            outs = {val(op, *r) for r in replacements((a, b))}
            got = val(op, a, b)
            if got != K:
                yield "unknown-soundness", op, (a, b), outs == {got}, f"{a} {op} {b} = {got} but replacements of UNKNOWN give {sorted(outs)}"
            else:
                yield "unknown-tightness", op, (a, b), len(outs) > 1, f"{a} {op} {b} = UNKNOWN although every replacement gives {sorted(outs)}"
        for a, b, c in product(VALS, repeat=3):
            if K not in (a, b, c):
                continue
            for name, f in (("left", lambda x, y, z: val(op, val(op, x, y), z)), ("right", lambda x, y, z: val(op, x, val(op, y, z)))):
                try:
                    got = f(a, b, c)
                    outs = {f(*r) for r in replacements((a, b, c))}
                except KeyError:
                    continue
                if got is None or None in outs:
                    continue
                if got != K:
                    yield f"unknown-soundness-triple-{name}", op, (a, b, c), outs == {got}, f"{(a, b, c)} under {op} ({name} bracketing) = {got}, replacements give {sorted(outs)}"
                else:
                    yield f"unknown-tightness-triple-{name}", op, (a, b, c), len(outs) > 1, f"{(a, b, c)} under {op} ({name} bracketing) = UNKNOWN although all replacements give {sorted(outs)}"
    for op, rows in parse_readme_tables().items():
        for a, b, res in rows:
            ctx.count("readme_rows_checked")
            for x, y in ((a, b), (b, a)):  # the tables list A/B once; the operators are documented as symmetric compositions
                got = val(op, x, y)
                yield "readme-row", op, (x, y), got == res, f"README: {logic.NAME[a]} {op} {logic.NAME[b]} = {logic.NAME[res]}, code: {logic.NAME[x]} {op} {logic.NAME[y]} = {got}"


def in_situ(ctx):
    """the table oracle attached to the real operators while real expressions are evaluated"""

    def on_violation(kind, message, extra):
        ctx.violation(kind, message, extra, phase="in-situ", case=ctx.case)

    n = 150 if ctx.quick else 3000
    with OperatorMonitor(on_violation) as mon:
        for i in range(n):
            t = G.gen_valid(ctx.rng, ctx.rng.randint(1, 4), invalid_pred=logic.structurally_invalid)
            s = G.render(t, ctx.rng)
            ctx.set_case("in-situ", {"s": s})
            out = capture(parse_condition_expression_to_tree, s)
            if out[0] != "ok":
                continue  # C02's business
            tree = out[1]
            rcs = G.keys_of(t, "rc")
            for asg in (list(logic.assignments(rcs)) if len(rcs) <= 4 else [{k: ctx.rng.choice([F, U, K]) for k in rcs} for _ in range(40)]):
                nodes = {k: RequirementConstraint(condition_key=k, conditions_fulfilled=REAL_OF[v]) for k, v in asg.items()}
                nodes.update({k: Hint(condition_key=k, hint="h" + k) for k in G.keys_of(t, "hint")})
                nodes.update({k: UnevaluatedFormatConstraint(condition_key=k) for k in G.keys_of(t, "fc")})
                capture(evaluate_requirement_constraint_tree, tree, nodes)
                ctx.evaluation()
        ctx.count("in_situ_operator_calls", mon.calls)
        ctx.count("in_situ_distinct_operand_pairs", len(mon.seen))
        ctx.note("in_situ_pairs_seen", sorted(f"{a} {op} {b}" for op, a, b in mon.seen))


async def run(ctx):
    for law, op, operands, ok, message in obligations(ctx):
        ctx.evaluation()
        ctx.count("obligations")
        ctx.count("law:" + law)
        if law != "totality":
            ctx.nontrivial([law, op, operands])
        if law in ("associativity", "unknown-soundness", "readme-row") and ctx.counters["law:" + law] % 40 == 1:
            ctx.sample({"law": law, "op": op, "operands": [logic.NAME[x] for x in operands]}, cls=law)
        if not ok:
            ctx.violation(law.split("-triple")[0], f"{law} broken for {op}: {message}", {"law": law, "op": op, "operands": operands}, phase="law", case={"law": law, "op": op, "operands": list(operands)})
    in_situ(ctx)


async def replay(ctx, phase, case):
    if phase == "law":
        for law, op, operands, ok, message in obligations(ctx):
            if law == case["law"] and op == case["op"] and list(operands) == list(case["operands"]) and not ok:
                ctx.violation(law.split("-triple")[0], f"{law} broken for {op}: {message}", phase=phase, case=case)
    else:
        await run(ctx)
