"""
Static description of every check (read by the orchestrator without importing ahbicht, and by
tools/make_manifest.py). The check modules themselves are vf/checks/cNN.py with

    async def run(ctx)                      generate cases, run the real code under the monitors
    async def replay(ctx, phase, case)      re-run one recorded case
"""

EXPLORATION = "exploration"
FAULTS = "fault_enumeration"

COMMON_ASSUMPTIONS = [
    "the code that runs is the working tree under $VERIF_REPO/src (default /repo/src); vf/repo.py asserts the origin of the imported package",
    "CPython 3.12 of /venv with the repository's pinned third-party packages (lark 1.2.2, marshmallow, inject, maus, pytz)",
    "reference models in vf/ref were written from README.rst and the property statements and share no code with ahbicht",
    "a clean run means: held on the executions listed under coverage, nothing more",
]

META = {}


def _add(pid, *, level=EXPLORATION, shards=(1, 14), timeout=(900, 5400), rule, assumptions=(), deciding=None, headline=(), exhaustive=False, title=""):
    META[pid] = {
        "level": level,
        "shards": {"quick": shards[0], "thorough": shards[1]},
        "timeout": {"quick": timeout[0], "thorough": timeout[1]},
        "rule": rule,
        "assumptions": COMMON_ASSUMPTIONS + list(assumptions),
        "deciding": deciding or {},
        "headline": list(headline),
        "exhaustive": exhaustive,
        "title": title,
    }


_add(
    "C03",
    shards=(1, 1),
    timeout=(300, 600),
    exhaustive=True,
    title="four-valued logic: algebraic laws, README tables, UNKNOWN soundness/tightness",
    rule=(
        "complete enumeration: for each of & | ^ all 16 operand pairs (totality, result type, commutativity, NEUTRAL identity, "
        "Boolean agreement, README rows parsed from README.rst at run time, UNKNOWN soundness and tightness) and all 64 triples "
        "(associativity; soundness/tightness of both bracketings). One obligation = one (law, operator, operand tuple); every "
        "obligation is distinct; non-trivial = every obligation except totality"
    ),
    deciding={"any": {"readme_rows_checked": 15, "obligations": 590}},
    headline=["obligations", "readme_rows_checked", "in_situ_operator_calls"],
)

_add(
    "C20",
    shards=(4, 14),
    timeout=(900, 5400),
    title="date-time format constraints 931-935",
    rule=(
        "instants: ALL local midnights and 06:00s of 1996-2037 (complete positive set) each with +-1 s/+-1 min/+-1 h/random negatives; both DST "
        "switch days of all 42 years at every quarter hour +-1 s; uniform random instants; each instant written in several notations (Z, +00:00, "
        "-00:00, fixed and random offsets at minute and second resolution, T or space, optional .000) and judged by all five constraints against "
        "an independent integer EU-DST calendar; robustness: hostile strings (range edges, naive, truncated, mutated, garbage) - never raise, "
        "unfulfilled => message, fulfilled => justified by an aware parse + the calendar. distinct non-trivial = distinct instants "
        "(positive, switch-day, random) plus distinct hostile strings judged fulfilled"
    ),
    deciding={"any": {"positive_instants": 30000, "switch_day_instants": 20000, "hostile_strings": 1000, "via_format_constraint_evaluation": 100}},
    headline=["positive_instants", "switch_day_instants", "random_instants", "hostile_strings", "via_format_constraint_evaluation"],
)

_add(
    "C18",
    shards=(2, 14),
    timeout=(900, 3600),
    title="key categories and the generated product",
    rule=(
        "classification: every integer 0..3000 plus leading-zero, huge, package and non-numeric spellings; extraction: token-level generated "
        "expressions (keys at all range boundaries, packages from a fixed table incl. nested and unknown ones, time conditions, out-of-range keys) "
        "with all four combinations of the resolution flags, compared with a regex-based reference partition; union law on pairs of expressions; "
        "product: every (m, n) up to the tier's bound with random key sets, result set compared with the reference Cartesian product. distinct "
        "non-trivial = range boundaries + extraction cases with >= 2 non-empty categories + union pairs + product shapes"
    ),
    deciding={"any": {"classified_integers": 3001, "extract_cases": 300, "union_cases": 50, "union_second_sums": 30, "products_after_changing_the_keys": 10, "product_shapes": 20, "extract_unknown_package": 1, "extract_out_of_range": 1}},
    headline=["classified_integers", "extract_cases", "union_cases", "product_shapes", "product_results_checked"],
)

_add(
    "C01",
    shards=(4, 14),
    timeout=(900, 5400),
    title="operator precedence",
    rule=(
        "token-level generated well-formed condition expressions (atoms: keys, packages with/without repeatability, time conditions; six operator "
        "spellings in both cases, juxtaposition, brackets, whitespace) - each token sequence in four renderings (plain, respelled + whitespace, "
        "redundant brackets); all 4! orderings of the four operator levels in chains with spelling combinations; long alternating chains; deep "
        "nesting. Oracle: a hand-written precedence parser yields the n-ary grouping, the lark tree must be some binarisation of it. distinct "
        "non-trivial = distinct strings with >= 2 operator kinds or grouping-relevant brackets"
    ),
    deciding={"any": {"token_sequences": 200, "level_ordering_chains": 100, "long_chains": 3, "long_runs_of_one_operator": 8, "deep_nestings": 2, "operator_patterns": 1364, "with_then": 50, "with_and": 50, "with_or": 50, "with_xor": 50}},
    headline=["token_sequences", "level_ordering_chains", "long_chains", "deep_nestings", "nontrivial_strings"],
)

_add(
    "C02",
    shards=(4, 14),
    timeout=(900, 5400),
    title="accepted language / SyntaxError for everything else",
    rule=(
        "hostile strings: well-formed condition and AHB expressions, near-misses (1-3 character edits: delete, insert, replace, transpose, "
        "duplicate over the token alphabet or a garbage alphabet with NUL, surrogates, non-ASCII digits, NBSP, VT, long s, Kelvin sign, "
        "look-alike letters), garbage, and a fixed list of structural edge cases; each string goes to the condition parser, the AHB parser, the "
        "combined resolver and (if malformed) is_valid_expression. Oracle: three-valued hand-written recogniser (accept / reject / unspecified) "
        "and an exception-type monitor (only SyntaxError may escape). distinct non-trivial = distinct strings not rejected at the first character"
    ),
    deciding={"any": {"strings": 2000, "condition-parser:accepted:ACCEPT": 200, "condition-parser:rejected:REJECT": 500, "resolver:accepted:ACCEPT": 300, "resolver:rejected:REJECT": 500, "is_valid_expression_on_malformed": 300, "package_failure_sequences": 30, "calls_from_a_deep_call_stack": 8, "repeated_calls_by_keyword": 100}},
    headline=["strings", "nontrivial_strings", "is_valid_expression_on_malformed"],
)

_add(
    "C04",
    shards=(2, 14),
    timeout=(900, 5400),
    title="requirement evaluation = compositional four-valued semantics",
    rule=(
        "structurally valid expressions over small key pools (keys repeat), range-boundary key pools and larger trees (up to 30 leaves), rendered "
        "with random operator spellings, whitespace, redundant brackets and flat same-operator runs; ALL 3^k assignments for k <= 6 requirement "
        "keys (400 sampled above) through evaluate_requirement_constraint_tree, a sample per expression through the async "
        "requirement_constraint_evaluation with harness evaluators; oracle: recursive reference evaluator on the generator's AST + documented "
        "outcome mapping. distinct non-trivial = distinct expression strings with >= 2 requirement keys and a hint or format constraint"
    ),
    deciding={"any": {"expressions": 300, "nontrivial_expressions": 100, "evaluations_with_unknown": 1000, "async_evaluations": 500, "evaluations_with_shipped_evaluators": 200, "small_scope_expressions": 1000, "evaluations_with_neutral_requirement_outcome": 200, "async_evaluations_with_context_managed_data": 300}},
    headline=["expressions", "nontrivial_expressions", "async_evaluations", "operator_calls_observed"],
)

_add(
    "C05",
    shards=(2, 14),
    timeout=(900, 5400),
    title="neutrality of hints, format constraints, brackets, operand order; stability under refinement",
    rule=(
        "metamorphic relations between two executions of the real evaluator on E and T(E) under the same assignment: T1 fresh hint and-ed onto "
        "the whole, T2 onto any operand of U/O/X, T3 fresh format constraint attached (left or right) to any sub-expression containing a "
        "requirement key, T4 redundant brackets around any sub-expression, T5 operands of any U/O/X swapped - all positions for small "
        "expressions (sampled above 40/80 variants), all 3^k assignments for k <= 4 (60 sampled above); T6 every definite outcome with UNKNOWN "
        "entries re-evaluated under all refinements. distinct non-trivial = distinct (transformation, expression, position) triples and (T6, "
        "expression, assignment) triples"
    ),
    deciding={"any": {"expressions": 100, "variants:T1-hint-onto-whole": 100, "variants:T2-hint-onto-operand": 200, "variants:T3-attach-fc": 200, "variants:T4-redundant-brackets": 200, "variants:T5-swap-operands": 200, "definite_outcomes_with_unknown": 200, "async_related_pairs_written_with_packages": 50, "async_related_pairs_with_odd_hint_texts": 100}},
    headline=["expressions", "definite_outcomes_with_unknown", "async_related_pairs"],
)

_add(
    "C06",
    shards=(2, 14),
    timeout=(900, 5400),
    title="validity is structural",
    rule=(
        "well-formed expressions in which juxtaposition attaches a single format-constraint key to a hint or to a requirement-constrained operand "
        "(about 40 % structurally invalid by construction, both clauses of the rule), every assignment (3^m, 300 sampled above m = 6) through "
        "the direct evaluator; AHB expressions (1-3 parts, invalid iff some part is) under all 3^m*2^n assignments through "
        "evaluate_ahb_expression_tree with harness evaluators and through is_valid_expression with the ContentEvaluationResult based evaluators "
        "and a ContextVar setter. Oracle: the structural predicate of the property statement. distinct non-trivial = distinct expression strings"
    ),
    deciding={"any": {"invalid_expressions": 200, "valid_expressions": 200, "invalid:hint-with-fc": 20, "invalid:neutral-with-rc": 100, "ahb_invalid": 15, "ahb_valid": 15, "is_valid_expression_calls": 30, "neutral_only_expressions": 100, "failed_evaluations_in_between": 50, "is_valid_expression_calls_with_tree": 10, "small_scope_expressions": 2900, "is_valid_expression_calls_with_time_conditions": 20, "is_valid_expression_calls_with_unresolved_ahb_tree": 10}},
    headline=["valid_expressions", "invalid_expressions", "ahb_valid", "ahb_invalid", "is_valid_expression_calls"],
)

_add(
    "C07",
    shards=(2, 14),
    timeout=(900, 5400),
    title="collected format-constraint expression",
    rule=(
        "structurally valid expressions rich in format constraints (attached to leaves and to composites, left and right), all 3^k requirement "
        "assignments for k <= 4 (60 sampled above); the collected expression is parsed with the real parser, its shape and keys are checked and it "
        "is evaluated with the real format-constraint evaluator under ALL 2^n truth assignments against the reference collection; the expression "
        "returned by requirement_constraint_evaluation is additionally fed to format_constraint_evaluation. distinct non-trivial = distinct "
        "expression strings with >= 2 format-constraint keys"
    ),
    deciding={"any": {"expressions": 300, "present_expressions": 1000, "absent_expressions": 300, "expressions_with_2plus_fc_keys": 100, "async_evaluations": 300, "small_scope_expressions": 1000}},
    headline=["expressions", "present_expressions", "absent_expressions", "silent_corner_cases", "async_evaluations"],
)

_add(
    "C08",
    shards=(2, 14),
    timeout=(900, 5400),
    title="format-constraint evaluation is Boolean and explains failures",
    rule=(
        "well-formed expressions over format-constraint keys with U/O/X in all spellings, minimal and redundant brackets, flat same-operator runs; "
        "ALL 2^n truth assignments (n <= 7) through evaluate_format_constraint_tree with messages on exactly the unfulfilled leaves (plain, "
        "unicode, quote-laden texts), a sample through the async format_constraint_evaluation with yielding harness evaluators (explicit messages "
        "or the default the base evaluator inserts); absent and empty expression. Oracle: Boolean value of the AST; message present iff "
        "unfulfilled. distinct non-trivial = distinct expression strings mixing >= 2 operator kinds"
    ),
    deciding={"any": {"expressions": 300, "expressions_mixing_operators": 100, "unfulfilled_results": 1000, "fulfilled_results": 1000, "async_evaluations": 500, "empty_expressions": 2, "evaluations_without_messages": 1000, "async_evaluations_under_random_completion_order": 200, "evaluations_with_shipped_evaluators": 200, "concurrent_evaluations": 200, "small_scope_expressions": 500, "evaluations_with_texts_on_fulfilled_constraints": 1000}},
    headline=["expressions", "expressions_mixing_operators", "fulfilled_results", "unfulfilled_results", "async_evaluations"],
)

_add(
    "C09",
    shards=(2, 14),
    timeout=(900, 5400),
    title="AHB expressions: split and select",
    rule=(
        "AHB expressions of the three documented forms (1-4 modal-mark parts with optional trailing bare mark, one prefix-operator part, bare "
        "indicator); EVERY spelling of every indicator in EVERY letter-case variant enumerated (alone, with condition, as later part, as trailing "
        "mark) plus random structures with random spellings, whitespace around the condition expressions and valid condition expressions with "
        "hints and format constraints; all 3^k assignments for k <= 3 (20 sampled above) incl. UNKNOWN, random format-constraint truth values. "
        "Oracle: written parts vs. tree children (AHB parser and resolver), reference selection of the first fulfilled part, selected part's "
        "outcome vs. evaluating its own condition expression alone (resolved and unresolved tree). distinct non-trivial = distinct expressions with >= 2 parts"
    ),
    deciding={"any": {"ahb_expressions": 300, "spelling_variants": 150, "form:bare": 20, "form:prefix": 50, "form:modal": 150, "later_part_selected": 100, "evaluations_with_unknown_part": 50, "evaluations_with_shipped_evaluators": 200, "ahb_expressions_written_with_packages": 50}},
    headline=["ahb_expressions", "spelling_variants", "later_part_selected", "evaluations_with_unknown_part"],
)

_add(
    "C10",
    shards=(2, 14),
    timeout=(900, 5400),
    title="package / time-condition resolution = bracketed substitution",
    rule=(
        "token-level generated condition and AHB expressions with packages (with/without repeatability, 5 package keys so that occurrences repeat "
        "and neighbour each other), time conditions UB1-3 and plain keys, at root and nested positions; random package tables (expressions with "
        "further packages and time conditions, unresolvable and missing keys); the package resolver's answers complete in every order for <= 4 "
        "occurrences (DFS over the release decisions) and in sampled orders above. Oracle: the statement itself - canonical tree (token types "
        "kept) of the resolved expression == tree of the textually substituted expression; flags separately; unknown package => "
        "NotImplementedError. distinct non-trivial = distinct (expression, table) with >= 2 package occurrences or package + time condition"
    ),
    deciding={"any": {"cases": 200, "package_occurrences": 300, "time_condition_occurrences": 100, "unknown_package_runs": 20, "exactly_equal": 500, "distinct_release_orders": 100, "resolutions_with_shipped_resolvers": 100, "resolutions_without_package_table": 50, "resolutions_for_a_format_without_package_table": 50, "shipped_resolver_mode:json-file-list": 30, "shipped_resolver_mode:cer-resolver-without-format": 30}},
    headline=["cases", "package_occurrences", "time_condition_occurrences", "unknown_package_runs", "distinct_release_orders", "association_only_difference"],
)

_add(
    "C11",
    shards=(2, 14),
    timeout=(900, 5400),
    title="parsing is history independent",
    rule=(
        "random histories (30-200 operations) over a pool of 32 condition / AHB strings private to the history (seed-encoding whitespace suffix): "
        "parse (cache hits dominate), in-place edits of previously returned trees at any depth (replace, remove, append, clear children, rename "
        "node, reverse, append at the deepest node) each followed by a re-parse of the same string, sweeps over the whole pool, floods of > 1024 "
        "distinct strings per parser (eviction) and a final re-parse of everything; monitors: every returned tree's canonical form (token types "
        "kept) equals the form of the first parse; requirement evaluation of the pool's expressions before == after the history. distinct "
        "non-trivial = distinct histories"
    ),
    deciding={"any": {"histories": 50, "mutations": 1000, "nested_mutations": 200, "hits_compared": 2000, "floods": 2, "evaluations_compared": 300, "cross_parser_calls": 500, "resolver_calls": 300, "full_resolver_results_compared": 300, "mutations_of_resolved_trees": 100, "parse_calls_by_keyword": 500, "mutation:token-edit": 100}},
    headline=["histories", "mutations", "nested_mutations", "hits_compared", "floods", "evaluations_compared", "shared_objects_seen"],
)

_add(
    "C12",
    shards=(2, 14),
    timeout=(900, 5400),
    title="independence from completion order; context isolation",
    rule=(
        "AHB expressions (1-3 parts, valid condition expressions over 6 requirement / 3 hint / 4 format keys, up to 3 sub-expressions abbreviated "
        "as packages) run through resolver + evaluate_ahb_expression_tree with every harness awaitable (requirement / format evaluators, hints "
        "provider, package resolver) parked by the completion-order explorer: ALL release orders for runs with <= 5/6 awaitables (DFS), FIFO + "
        "LIFO + random orders above; result compared with the run in which nothing yields; per-key pairing contracts on evaluate_conditions, "
        "evaluate_format_constraints, get_hints, gather_if_necessary (tables give neighbouring keys different values); K = 2-5 concurrent "
        "evaluations with their own data in context-local storage (diagonal log + own baseline); is_valid_expression under yielding evaluators "
        "must show the evaluators exactly the Cartesian product. distinct non-trivial = distinct expressions run under >= 2 distinct release orders"
    ),
    deciding={"any": {"expressions": 100, "distinct_release_orders": 500, "runs_with_concurrently_parked_awaitables": 300, "exhaustively_enumerated_expressions": 5, "contract_multi:evaluate_conditions": 300, "contract_multi:evaluate_format_constraints": 50, "contract_multi:get_hints": 50, "contract_multi:gather_if_necessary": 100, "isolation_runs": 20, "isolation_events": 200, "validity_runs_with_concurrency": 10, "package_pairing_comparisons": 30, "direct_site_runs": 200, "direct_site_runs_with_contexts": 20, "expressions_with_a_repeated_package": 30, "failure_isolation_runs": 100, "package_ticket_runs": 200, "isolation_runs_with_shipped_evaluators": 50, "deep_tree_isolation_runs": 20}},
    headline=["expressions", "runs", "distinct_release_orders", "exhaustively_enumerated_expressions", "isolation_runs", "validity_runs"],
)

_add(
    "C13",
    shards=(4, 14),
    timeout=(900, 5400),
    title="validation: exactly once, in order, parents dominate",
    rule=(
        "random deep AHB trees (unique discriminators; groups, sub-groups, segments, free-text elements with unique inputs, value pools of 1-5 "
        "entries; expressions with one or two modal marks incl. SOLL, prefix operators, bare indicators, hints, format constraints, a few "
        "structurally invalid ones) x random F/U assignments (UNKNOWN in ~12 % of the trees) x both soll values, validated under a random "
        "completion order of all harness awaitables; log checkers on the returned list: multiset of discriminators = nodes not below a forbidden "
        "node, sequence = document order, per node status = reference (documented mapping combined with the parent table, FILLED/EMPTY suffix), "
        "NotImplementedError iff a visited MUSS/prefix node is UNKNOWN; validate_segment_level on a random sub-tree. distinct non-trivial = "
        "distinct (tree, assignment, flag) with depth >= 3 or pruning"
    ),
    deciding={"any": {"trees": 100, "nodes_reported": 1500, "trees_with_pruning": 30, "runs_expecting_not_implemented": 3, "segment_level_calls": 50, "runs_with_concurrently_parked_awaitables": 50, "sequence_runs": 50, "runs_with_shipped_evaluators": 30, "trees_with_line_indexes": 50, "calls_with_explicit_parent_status": 50, "explicit_parent:IS_FORBIDDEN": 5, "trees_written_with_packages": 30, "trees_with_a_very_wide_node": 3, "parent_child_table_cases": 576}},
    headline=["trees", "nodes_reported", "nodes_pruned", "runs_expecting_not_implemented", "segment_level_calls"],
)

_add(
    "C14",
    shards=(4, 14),
    timeout=(900, 5400),
    title="soll flag = rewriting SOLL",
    rule=(
        "metamorphic relation between real runs on random AHB trees biased to carry SOLL at every level (groups, segments, free-text elements, "
        "value-pool entries; below required and optional parents; UNKNOWN in ~20 % of the trees): validate(T, soll=True) == validate(T[SOLL->MUSS]) "
        "and validate(T, soll=False) == validate(T[SOLL->KANN]) node by node (status, possible values, format flag and message, hints, type; or the "
        "same NotImplementedError), the rewritten tree under both flag values, random completion orders; same relation through validate_segment / "
        "validate_segment_level. Rewriting happens on the generator's parts, whitespace kept. distinct non-trivial = distinct (tree, assignment) "
        "with SOLL at >= 2 kinds of node"
    ),
    deciding={"any": {"trees": 50, "relation_instances": 100, "soll_at:G": 20, "soll_at:S": 20, "soll_at:F": 20, "segment_relation_instances": 30, "unknown_decided_by_soll_only": 3, "default_flag_after_failed_run": 5}},
    headline=["trees", "relation_instances", "relation_instances_not_implemented", "segment_relation_instances"],
)

_add(
    "C15",
    shards=(4, 14),
    timeout=(900, 5400),
    title="each free-text element sees only its own input",
    rule=(
        "random AHB trees in which every free-text data element has a unique entered input and format-constraint keys owned by that element alone "
        "(901-999 minus 931-935), expressions with one or two parts attaching the keys to requirement constraints / hints; validated under a "
        "random completion order with a yielding format-constraint evaluator whose verdict is a keyed predicate of the text; event log per "
        "evaluation: (key, text passed in, text read from the context variable after the yield) must both be the owner's input; second oracle: "
        "the element's result in the tree run == validate_data_element_freetext on the element alone with nothing yielding. distinct non-trivial = "
        "distinct (tree, assignment, schedule) with >= 2 elements' format constraints evaluated and >= 2 awaitables parked at once"
    ),
    deciding={"any": {"trees": 100, "fc_events": 500, "trees_with_concurrent_elements": 50, "elements_compared_with_standalone": 300, "trees_with_shared_keys": 20, "runs_with_stale_text_in_context": 50, "trees_with_same_instant_in_different_notations": 20, "trees_with_reused_result_objects": 10, "date_verdicts_checked_fulfilled": 20, "date_verdicts_checked_unfulfilled": 50, "elements_revalidated_as_the_same_object": 200}},
    headline=["trees", "fc_events", "trees_with_concurrent_elements", "elements_compared_with_standalone"],
)

_add(
    "C16",
    level=FAULTS,
    shards=(4, 14),
    timeout=(900, 5400),
    title="invalid expressions are contained",
    rule=(
        "fault = a well-formed but structurally invalid AHB expression (one or two parts, both clauses of the validity rule) planted at a node; "
        "fault sites: every group, segment, free-text element and value-pool entry of random AHB trees; for trees with <= 8 sites ALL single "
        "faults and ALL pairs (sampled to 14 subsets per tree on the quick tier), larger subsets sampled above; each faulty tree validated under a "
        "random completion order and compared node by node with the same tree carrying 'Kann' at the fault sites; faulty nodes must be reported "
        "optional with the reason as hint, faulty pool entries must be offered, nothing may abort. No UNKNOWN is drawn (the documented "
        "NotImplementedError belongs to C13). distinct non-trivial = distinct (faulty tree, assignment, flag) whose fault was actually visited"
    ),
    deciding={"any": {"trees": 30, "injections": 300, "faults_visited": 200, "fault_at:G": 30, "fault_at:S": 30, "fault_at:F": 30, "fault_at:E": 30, "injections_with_shared_lookups": 50}},
    headline=["trees", "injections", "faults_planted", "faults_visited"],
)

_add(
    "C17",
    shards=(4, 14),
    timeout=(900, 5400),
    title="value pools",
    rule=(
        "random value pools of 1-8 entries (prefix-operator, modal-mark, bare and two-part entry expressions with hints / format constraints, ~8 % "
        "structurally invalid entries) x assignments (random incl. UNKNOWN, random F/U, all unfulfilled) x entered inputs (absent, empty, offered, "
        "pool member that is not offered, foreign) x parent status (required, optional, forbidden), called directly "
        "(validate_data_element_valuepool) and through validate_segment under a random completion order. Oracle: reference offered set in pool "
        "order, accept / flag-and-empty / forbidden per the property statement. distinct non-trivial = distinct (pool with >= 2 entries, "
        "assignment, parent, entry point)"
    ),
    deciding={"any": {"pool_cases": 1000, "offered_none": 100, "input:offered": 100, "input:pool-member-not-offered": 50, "input:foreign": 100, "input:absent": 100, "parent:IS_FORBIDDEN": 50, "via_segment_forbidden": 10, "input:fragment-of-offered": 100, "input:blank-or-padded": 300}},
    headline=["pool_cases", "offered_none", "input:offered", "input:pool-member-not-offered", "input:foreign"],
)

_add(
    "C19",
    shards=(2, 14),
    timeout=(900, 5400),
    title="JSON round trips",
    rule=(
        "objects produced by the real code: trees from the condition parser, the AHB parser and the resolver (packages and time conditions "
        "resolved or not) for generated expressions; requirement / format / AHB evaluation results of real evaluations under assignments with "
        "UNKNOWN (undetermined = null outcomes); categorized key extracts and the content evaluation results generated from them; plus "
        "constructed content evaluation results (None hints, packages None / {} / filled, ids, unicode and quote-laden messages) and evaluated "
        "format constraints. Monitor: Schema().dumps -> json -> loads -> == (for trees additionally the canonical form with token types), and "
        "evaluating the round-tripped tree == evaluating the original. distinct non-trivial = distinct round-tripped trees, content evaluation "
        "results and extracts"
    ),
    deciding={"any": {"trees": 200, "evaluations_compared": 100, "results_with_undetermined_outcome": 20, "round_trips:ahb-result": 50, "round_trips:requirement-result": 100, "round_trips:format-result": 100, "round_trips:content-evaluation-result": 300, "round_trips:categorized-key-extract": 50, "round_trips:evaluated-format-constraint": 200, "concise_dumps_before_round_trip": 100, "unsanitized_extracts": 50, "staged_resolutions": 30, "rejected_documents_in_between": 100, "foreign_schema_classes_defined": 1, "extracts_round_tripped_after_use": 50, "deep_tree_round_trips": 4}},
    headline=["trees", "evaluations_compared", "results_with_undetermined_outcome"],
)


# what the workloads gained after the first version (see DESIGN.md section 10.4); appended to the rule texts
RULE_ADDITIONS = {
    "C01": "small scope, complete: EVERY sequence of up to 5 (thorough: 6) operators out of {juxtaposition, U, X, O} between atoms; runs of 33-66 (thorough: up to 129) operands joined mostly by ONE operator, with a few other operators and bracketed pairs in between, each with and without free whitespace.",
    "C07": "small scope, complete: EVERY structurally valid expression with up to 3 (thorough: 4) leaves over {[1], [2], [501], [901], [902]} under all assignments. every other truth assignment is evaluated with message-less constraint objects (what the dictionary based evaluators hand over).",
    "C02": "every 7th string is parsed twice (same verdict); sequences 'well-formed string whose package is malformed -> repaired table / no package resolution'. runs of 90-100 operands handed to the two cached parsers from 650-700 frames deep in the caller (thorough: also 260 operands from the top level): a tree, no RecursionError; repeated calls pass the string by keyword half of the time.",
    "C04": "small scope, complete: EVERY structurally valid expression with up to 3 (thorough: 4) leaves over {[1], [2], [501], [901], [902]} under all 3^k assignments; half of the async evaluations run under a random completion order; every fourth expression also through the library's own evaluators (dictionary based, ContentEvaluationResult based with fresh and with ONE long-lived in-place refreshed EvaluatableData, user evaluator classes with instance state and new instances per message), assignments consecutively per mode; re-evaluation with the same tree and input node objects. the harness requirement evaluator routes two redefined keys through an overridden get_evaluation_method while the class still carries the superseded evaluate_<key> methods (which answer differently). and-only expressions under assignments over all FOUR states (NEUTRAL answered by the user evaluator); a third of the async evaluations with an EvaluatableDataProvider that is a context manager (data released when the injected call returns); ContentEvaluationResult bodies spell the states in upper / lower / title case.",
    "C05": "fresh keys include the ends of the hint / format-constraint ranges; up to six variants per expression also through the async API, mostly under a random completion order. a third of the async pairs with hint texts that are empty, blank, 0 or None (as strings). a third of the async pairs written with packages (resolved by the library first).",
    "C06": "small scope, complete: EVERY expression of the domain (valid and invalid) with up to 3 (thorough: 4) leaves over {[1], [2], [501], [901], [902]} under all assignments; is_valid_expression also on the already resolved tree; a class of expressions built from hints and format constraints alone (the 'directly combines a single hint with a single format constraint' boundary); failing out-of-domain evaluations interleaved with the judged ones. a fifth of the validity calls hand in the (unresolved) tree of the AHB parser; 11 fixed expressions with time conditions (valid and invalid), each as string and as unresolved tree.",
    "C08": "small scope, complete: EVERY U/O/X expression with up to 3 (thorough: 4) leaves over three keys (minimal brackets / flat runs, all spellings) under all truth assignments; message-less constraints through the tree evaluator (Boolean clause only); async evaluations mostly under a random completion order; the library's dictionary / ContentEvaluationResult based evaluators with and without messages; 2-5 concurrent evaluations of one expression with different texts (no foreign text in a message). every truth assignment also with fulfilled single constraints that carry a text of their own (odd keys): the message clause must hold for them as well.",
    "C09": "every fifth case an AHB expression whose parts are written with packages (several per part, different nesting depths) evaluated after resolution against the parts' own written-out condition expressions; the first assignment of every expression also through the library's own dictionary / ContentEvaluationResult based evaluators (same result as with equivalent user evaluators).",
    "C10": "a third of the cases with packages also against a message of a format / version for which no package table is registered (NotImplementedError demanded); shipped resolvers incl. a user-written provider that serves one DictBasedPackageResolver created without format; half of the cases also through the library's own package resolvers (dictionary based; ContentEvaluationResult based with the same resolver instances and changing data). a content evaluation result without package table (packages = None) through the cer / hardcoded resolvers; repeatabilities whose bounds have different numbers of digits (2..10, 9..10, 5..100). further shipped-resolver modes: the ContentEvaluationResult based resolver created without format behind a user provider; JsonFilePackageResolver on a mapping-LIST file that also holds entries of another EDIFACT format.",
    "C11": "the combined resolver (time conditions kept, so that it hands out what it got from the condition parser) is part of the histories: its trees are edited too and the condition parts of the AHB expressions are pool strings of their own; flood strings must parse; every pool string also goes to the OTHER parser before, during and after the history (must stay a SyntaxError); 11 strings with packages and all three time conditions go through the resolver with everything switched on, the trees it returns are edited and every such string is resolved again (first result == every later result). a fifth of the parse calls pass the string by keyword; the edit operations include writing .value / .type of a Token of a returned tree.",
    "C12": "a third of the expressions use one package at several places (every occurrence a look-up of its own); the abbreviated expression must evaluate like the expression with every package written out; the three gather sites called directly (evaluate_conditions also with per-key evaluation contexts, a key asked for twice) under all / sampled orders; the harness evaluator narrows and re-reads its evaluation context around the yield; 2-4 concurrent evaluations whose requirement evaluators await look-ups SHARED between all of them while one evaluation fails (an invalid modal-mark part beside a valid one): every other evaluation must end as it does alone (FIFO, LIFO, 3 random orders). 150 isolation cases through the shipped ContentEvaluationResult based evaluators (one set of instances, per-task results in context-local data); a package resolver that answers every look-up with a numbered expression of its own (each answer must be in the resolved tree exactly once, all orders); is_valid_expression must hand a different element of the product to every evaluation it starts.",
    "C13": "complete parent x child table: every (indicator, outcome) of a parent x every (indicator, outcome) of its child x both flag values for group > segment and segment > free text (thorough: three levels); validate_segment(_group) with an explicit parent status (all three); batches of 2-4 validations awaited from one coroutine; a quarter of the runs through the library's own evaluators; 40 % of the trees with maus line indexes in flat-AHB order; a third of the trees partly written with packages.",
    "C14": "35 % of the trees with exactly one UNKNOWN key (so that it reaches only SOLL nodes); the segment-level entry point without flag after a refused run with flag False in the same task; a third of the trees partly written with packages.",
    "C15": "inputs with leading / trailing whitespace and whitespace-only inputs; trees whose evaluator answers with long-lived per-key result objects; every fourth tree shares three keys between all elements, every sixth uses the shipped 932-935 on ONE instant written in up to nine notations, half of the runs start with a stale text in the caller's context; no other element's input may appear in an element's result; every sixth tree gives each element its own instant and notation under a shipped 931-935 (written as key or as [UB1]/[UB2], half of the elements typed DATETIME/TEXT): the reported verdict must be the independent calendar's verdict on the input as entered. every other element is re-validated on its own AS THE SAME OBJECT that went through the tree run. evaluators that answer ALL keys with one long-lived fulfilled / not-fulfilled object pair (15 % of the ordinary trees, half of the shared-key trees).",
    "C16": "35 % of the injections with one pending look-up per requirement key shared between all nodes; hint texts contain braces, percent signs and quotes; a third of the trees partly written with packages.",
    "C17": "12 % of the pool entries carry an empty, blank or \"0\" meaning. padded offered qualifiers and blank inputs (never offered).",
    "C20": "whether a FULFILLED verdict is defensible at all is decided by a recogniser of ISO 8601 / RFC 3339 datetimes of the harness' own (not by datetime.fromisoformat, which the code under test uses and which is lenient).",
    "C18": "fixed extraction cases every run contains (unknown package, out-of-range keys, nested package, all flags); a second sum with the same left summand; the product regenerated after keys were added to the same extract.",
    "C19": "staged resolution on one tree object (inspect unresolved, then expand); dumps through the concise schemas and rejected documents interleaved; long-lived schema instances; extracts as extracted (unsanitised). extracts are round-tripped again after generate_possible_content_evaluation_results() was called on them. after 50 cases the process defines marshmallow schema classes of its own whose names coincide with those of ahbicht (one process-wide class registry). parse trees of single runs of 30-110 (thorough: -200) operands through TreeSchema (RecursionError from 55 operands on: open known finding).",
}
for _pid, _text in RULE_ADDITIONS.items():
    META[_pid]["rule"] += " Also: " + _text

# phases added in round 10 (what each adds is said in one sentence of the rule text; the counter makes a run that never reached it inconclusive)
ROUND10 = {
    "C01": ("expressions in which one composite term occurs two or three times (equal sub-trees beside / below each other).", {"expressions_with_a_repeated_term": 100}),
    "C02": ("is_valid_expression on the tree of the AHB parser whose condition part is malformed ((False, message) demanded).", {"is_valid_expression_on_ahb_tree_with_malformed_condition": 200}),
    "C04": ("the harness requirement evaluator is a class hierarchy (three keys are defined in the base class as well and answer differently there) and some of its methods sit behind a functools.wraps decorator whose wrapper is a coroutine function.", {}),
    "C06": ("the time-condition expressions also as the resolver's own tree with replace_time_conditions=False; keys written with leading zeros at AHB level.", {"is_valid_expression_calls_with_time_conditions": 33}),
    "C07": ("a bracketed GROUP of format constraints attached by juxtaposition in place of a single key; keys written with leading zeros in the edge pools (a key is what is written).", {"expressions_with_an_attached_group": 80}),
    "C08": ("fulfilled constraints with a text include objects that were created unfulfilled and corrected by attribute assignment.", {}),
    "C09": ("a part that is returned only because it is the last one must keep the conditional flag of its own condition expression.", {}),
    "C10": ("the result object of another message (same package keys, other expressions) is built between creating the result and resolving with it, package tables filled in place after construction (half of those results start from a JSON body without packages member loaded through the schema); dictionary based logic registered for MSCONS with an MSCONS message.", {"results_of_other_messages_built_in_between": 100, "shipped_resolver_mode:hardcoded-mscons": 20}),
    "C12": ("every evaluation method must have been handed the evaluation context given for ITS key (evaluate_conditions with condition_keys_with_context).", {"contexts_handed_to_evaluation_methods": 200}),
    "C13": ("a quarter of the trees have free-text data elements without discriminator (None).", {"free_texts_without_discriminator": 30}),
    "C15": ("four validations at a time in four THREADS (own event loop and context-local data each, interpreter switch interval 10 us), every result compared with the same validation done alone; format-constraint methods of every third key publish a derived text in the context variable and leave it there.", {"validations_in_concurrent_threads": 200}),
    "C17": ("15 % of the pools list one qualifier twice (with different expressions): offered once if one of its entries is admissible.", {"pools_with_a_repeated_qualifier": 20}),
    "C18": ("fixed cases with one number in two spellings of which one is repeated later ([7] U [007] U [7]).", {}),
}
for _pid, (_text, _counters) in ROUND10.items():
    META[_pid]["rule"] += " " + _text
    for _tier_counters in META[_pid]["deciding"].values():
        _tier_counters.update(_counters)

# every check whose quick tier has several shards must have run one of them under `python -O` with the library's loggers switched on
for _pid, _meta in META.items():
    if _meta["shards"]["quick"] >= 2:
        _meta["rule"] += " Shard 0 is the plain interpreter; of the others, by turns: python -O + all loggers of the library at level 1 with a formatting handler + eager task factory; loggers only; python -O + eager task factory; each with a PYTHONHASHSEED of its own."
        for _tier_counters in _meta["deciding"].values():
            _tier_counters["shards_run:optimized+logging+eager"] = 1
