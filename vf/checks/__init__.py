"""
Static description of every check (read by the orchestrator without importing ahbicht, and by
tools/make_manifest.py). The check modules themselves are vf/checks/cNN.py with

    async def run(ctx)                      generate cases, run the real code under the monitors
    async def replay(ctx, phase, case)      re-run one recorded case
"""

EXPLORATION = "exploration"
FAULTS = "fault_enumeration"

COMMON_ASSUMPTIONS = [
    "the code that runs is the working tree under $VERIF_REPO/src (default /repo/src); vf/repo.py asserts the origin of the imported package",
    "CPython 3.12 of /venv with the repository's pinned third-party packages (lark 1.2.2, marshmallow, inject, maus, pytz)",
    "reference models in vf/ref were written from README.rst and the property statements and share no code with ahbicht",
    "a clean run means: held on the executions listed under coverage, nothing more",
]

META = {}


def _add(pid, *, level=EXPLORATION, shards=(1, 14), timeout=(900, 5400), rule, assumptions=(), deciding=None, headline=(), exhaustive=False, title=""):
    META[pid] = {
        "level": level,
        "shards": {"quick": shards[0], "thorough": shards[1]},
        "timeout": {"quick": timeout[0], "thorough": timeout[1]},
        "rule": rule,
        "assumptions": COMMON_ASSUMPTIONS + list(assumptions),
        "deciding": deciding or {},
        "headline": list(headline),
        "exhaustive": exhaustive,
        "title": title,
    }


_add(
    "C03",
    shards=(1, 1),
    timeout=(300, 600),
    exhaustive=True,
    title="four-valued logic: algebraic laws, README tables, UNKNOWN soundness/tightness",
    rule=(
        "complete enumeration: for each of & | ^ all 16 operand pairs (totality, result type, commutativity, NEUTRAL identity, "
        "Boolean agreement, README rows parsed from README.rst at run time, UNKNOWN soundness and tightness) and all 64 triples "
        "(associativity; soundness/tightness of both bracketings). One obligation = one (law, operator, operand tuple); every "
        "obligation is distinct; non-trivial = every obligation except totality"
    ),
    deciding={"any": {"readme_rows_checked": 15, "obligations": 590}},
    headline=["obligations", "readme_rows_checked", "in_situ_operator_calls"],
)

_add(
    "C20",
    shards=(4, 14),
    timeout=(900, 5400),
    title="date-time format constraints 931-935",
    rule=(
        "instants: ALL local midnights and 06:00s of 1996-2037 (complete positive set) each with +-1 s/+-1 min/+-1 h/random negatives; both DST "
        "switch days of all 42 years at every quarter hour +-1 s; uniform random instants; each instant written in several notations (Z, +00:00, "
        "-00:00, fixed and random offsets at minute and second resolution, T or space, optional .000) and judged by all five constraints against "
        "an independent integer EU-DST calendar; robustness: hostile strings (range edges, naive, truncated, mutated, garbage) - never raise, "
        "unfulfilled => message, fulfilled => justified by an aware parse + the calendar. distinct non-trivial = distinct instants "
        "(positive, switch-day, random) plus distinct hostile strings judged fulfilled"
    ),
    deciding={"any": {"positive_instants": 30000, "switch_day_instants": 20000, "hostile_strings": 1000, "via_format_constraint_evaluation": 100}},
    headline=["positive_instants", "switch_day_instants", "random_instants", "hostile_strings", "via_format_constraint_evaluation"],
)

_add(
    "C18",
    shards=(2, 14),
    timeout=(900, 3600),
    title="key categories and the generated product",
    rule=(
        "classification: every integer 0..3000 plus leading-zero, huge, package and non-numeric spellings; extraction: token-level generated "
        "expressions (keys at all range boundaries, packages from a fixed table incl. nested and unknown ones, time conditions, out-of-range keys) "
        "with all four combinations of the resolution flags, compared with a regex-based reference partition; union law on pairs of expressions; "
        "product: every (m, n) up to the tier's bound with random key sets, result set compared with the reference Cartesian product. distinct "
        "non-trivial = range boundaries + extraction cases with >= 2 non-empty categories + union pairs + product shapes"
    ),
    deciding={"any": {"classified_integers": 3001, "extract_cases": 300, "union_cases": 50, "product_shapes": 20, "extract_unknown_package": 1, "extract_out_of_range": 1}},
    headline=["classified_integers", "extract_cases", "union_cases", "product_shapes", "product_results_checked"],
)

_add(
    "C01",
    shards=(4, 14),
    timeout=(900, 5400),
    title="operator precedence",
    rule=(
        "token-level generated well-formed condition expressions (atoms: keys, packages with/without repeatability, time conditions; six operator "
        "spellings in both cases, juxtaposition, brackets, whitespace) - each token sequence in four renderings (plain, respelled + whitespace, "
        "redundant brackets); all 4! orderings of the four operator levels in chains with spelling combinations; long alternating chains; deep "
        "nesting. Oracle: a hand-written precedence parser yields the n-ary grouping, the lark tree must be some binarisation of it. distinct "
        "non-trivial = distinct strings with >= 2 operator kinds or grouping-relevant brackets"
    ),
    deciding={"any": {"token_sequences": 200, "level_ordering_chains": 100, "long_chains": 3, "deep_nestings": 2, "with_then": 50, "with_and": 50, "with_or": 50, "with_xor": 50}},
    headline=["token_sequences", "level_ordering_chains", "long_chains", "deep_nestings", "nontrivial_strings"],
)

_add(
    "C02",
    shards=(4, 14),
    timeout=(900, 5400),
    title="accepted language / SyntaxError for everything else",
    rule=(
        "hostile strings: well-formed condition and AHB expressions, near-misses (1-3 character edits: delete, insert, replace, transpose, "
        "duplicate over the token alphabet or a garbage alphabet with NUL, surrogates, non-ASCII digits, NBSP, VT, long s, Kelvin sign, "
        "look-alike letters), garbage, and a fixed list of structural edge cases; each string goes to the condition parser, the AHB parser, the "
        "combined resolver and (if malformed) is_valid_expression. Oracle: three-valued hand-written recogniser (accept / reject / unspecified) "
        "and an exception-type monitor (only SyntaxError may escape). distinct non-trivial = distinct strings not rejected at the first character"
    ),
    deciding={"any": {"strings": 2000, "condition-parser:accepted:ACCEPT": 200, "condition-parser:rejected:REJECT": 500, "resolver:accepted:ACCEPT": 300, "resolver:rejected:REJECT": 500, "is_valid_expression_on_malformed": 300}},
    headline=["strings", "nontrivial_strings", "is_valid_expression_on_malformed"],
)
