"""C07 - the collected format-constraint expression is well-formed and meaning-preserving."""

from vf import evalhelp as H
from vf import evaluators as E
from vf.canon import canon
from vf.gen import expr as G
from vf.monitors import capture, describe
from vf.ref import logic

from ahbicht.expressions.condition_expression_parser import parse_condition_expression_to_tree
from ahbicht.expressions.format_constraint_expression_evaluation import evaluate_format_constraint_tree

ALLOWED_NODES = {"and_composition", "or_composition", "xor_composition", "condition"}


def tree_keys_and_shape(c, keys, bad):
    """walk a canonical tree: collect condition keys, note anything that is not U/O/X over condition leaves"""
    if c[0] == "T":
        if c[1] not in ALLOWED_NODES:
            bad.append(c[1])
        if c[1] == "condition":
            if len(c[2]) != 1 or c[2][0][0] != "t" or c[2][0][1] != "CONDITION_KEY":
                bad.append("malformed condition leaf")
            else:
                keys.append(c[2][0][2])
            return
        for child in c[2]:
            tree_keys_and_shape(child, keys, bad)
    else:
        bad.append(f"token {c}")


PLACEHOLDER = "999"


def bool_of_group(t):
    """Boolean AST (logic.ref_fc's format) of an AST made of format-constraint leaves only"""
    return ("k", t[1]) if t[0] == "fc" else (t[0], bool_of_group(t[1]), bool_of_group(t[2]))


def with_group(e, group):
    """the reference collection with the placeholder key replaced by the bracketed group that stands in its place in the string"""
    if e is None or group is None:
        return e
    if e[0] == "k":
        return bool_of_group(group) if e[1] == PLACEHOLDER else e
    return (e[0], with_group(e[1], group), with_group(e[2], group))


def key_ast_of(case):
    """an AST that has all keys of the string (for building inputs / worlds): with an attached group the group's keys as well"""
    return ["and", case["ast"], case["group"]] if case.get("group") else case["ast"]


def judge_fce(ctx, what, s, ast, asg, fce, wcase):
    """fce: the collected expression (str | None) for (expression, assignment)"""
    group = wcase.get("group")
    ref = with_group(logic.ref_fc(ast, asg, strict_drop=True), group)
    alt = with_group(logic.ref_fc(ast, asg, strict_drop=False), group)
    if ref != alt:
        ctx.count("silent_corner_cases")  # FC collected inside a non-fulfilled juxtaposition operand: both readings accepted
    if not fce:
        if ref is not None and alt is not None:
            ctx.violation("fc-expression-missing", f"{what}: {s!r} under {asg} yields no format constraint expression, expected one equivalent to {ref}", case=wcase)
        else:
            ctx.count("absent_expressions")
        return
    if not isinstance(fce, str):
        ctx.violation("fc-expression-type", f"{what}: {s!r} under {asg} yields {fce!r}", case=wcase)
        return
    if ref is None and alt is None:
        ctx.violation("fc-expression-spurious", f"{what}: {s!r} under {asg} yields {fce!r} although no format constraint takes part", case=wcase)
        return
    out = capture(parse_condition_expression_to_tree, fce)
    if out[0] != "ok":
        ctx.violation("fc-expression-not-wellformed", f"{what}: {s!r} under {asg} yields {fce!r}, which the condition parser rejects: {describe(out)[:120]}", case=wcase)
        return
    tree = out[1]
    keys, bad = [], []
    tree_keys_and_shape(canon(tree), keys, bad)
    if bad:
        ctx.violation("fc-expression-shape", f"{what}: {s!r} under {asg} yields {fce!r} containing {bad[:3]} (only U/O/X over format-constraint keys allowed)", case=wcase)
        return
    source_fcs = set(G.keys_of(key_ast_of(wcase), "fc")) - ({PLACEHOLDER} if group else set())
    foreign = [k for k in keys if k not in source_fcs]
    if foreign:
        ctx.violation("fc-expression-foreign-key", f"{what}: {s!r} under {asg} yields {fce!r} with keys {foreign} that are no format-constraint keys of the source", case=wcase)
        return
    ctx.count("present_expressions")
    candidates = [r for r in (ref, alt) if r is not None]
    all_keys = sorted(set(keys) | set(k for r in candidates for k in logic.bool_keys(r)))
    ok = [True] * len(candidates)
    witness = None
    for fa in logic.bool_assignments(all_keys):
        ctx.evaluation()
        ev = capture(evaluate_format_constraint_tree, tree, E.fc_table(fa, messages=sum(fa.values()) % 2 == 0))  # every other truth assignment with message-less constraints
        if ev[0] != "ok":
            ctx.violation(f"fc-evaluation-raises-{type(ev[1]).__name__}", f"{what}: evaluating the collected expression {fce!r} under {fa} {describe(ev)[:200]}", case=wcase)
            return
        got = ev[1].format_constraint_fulfilled
        for i, r in enumerate(candidates):
            if ok[i] and got != logic.bool_eval(r, fa):
                ok[i] = False
                witness = witness or (fa, got, logic.bool_eval(r, fa))
    if not any(ok):
        ctx.violation("fc-expression-meaning", f"{what}: {s!r} under {asg} yields {fce!r}; under the truth assignment {witness[0]} it evaluates to {witness[1]}, the direct reading {ref} gives {witness[2]}", case=wcase)


async def check_expression(ctx, case):
    ast, s = case["ast"], case["s"]
    rng = ctx.case_rng(case)
    ctx.set_case("expression", case)
    out = capture(parse_condition_expression_to_tree, s)
    if out[0] != "ok":
        ctx.violation("valid-expression-not-parsed", f"parse_condition_expression_to_tree({s!r}) {describe(out)[:200]}")
        return
    tree = out[1]
    key_ast = key_ast_of(case)
    rcs = G.keys_of(ast, "rc")
    asgs = case.get("assignments") or H.assignments_for(rcs, rng, full_up_to=4, sample=60)
    ctx.count("expressions")
    nfc = len(G.keys_of(ast, "fc"))
    if nfc >= 2:
        ctx.nontrivial(s)
        ctx.count("expressions_with_2plus_fc_keys")
    for asg in asgs:
        wcase = dict(case, assignments=[asg])
        kind, val = H.direct_state(tree, key_ast, asg)
        if kind != "state":
            ctx.violation("valid-expression-raises", f"{s!r} under {asg}: {val!r:.200}", case=wcase)
            return
        node = val[1]
        fce = getattr(node, "format_constraints_expression", None)
        if fce is None and type(node).__name__ == "UnevaluatedFormatConstraint":
            fce = f"[{node.condition_key}]"  # a single format constraint key: requirement_constraint_evaluation builds this itself
        judge_fce(ctx, "evaluate_requirement_constraint_tree", s, ast, asg, fce, wcase)
    # what the property talks about: the expression returned by requirement_constraint_evaluation, fed to format_constraint_evaluation
    for asg in (asgs if len(asgs) <= 6 else rng.sample(asgs, 6)):
        wcase = case
        fa = {k: rng.random() < 0.5 for k in G.keys_of(key_ast, "fc")}
        world = H.world_for(key_ast, asg, fa)
        aout = await H.async_requirement(s, world)
        ctx.count("async_evaluations")
        if aout[0] != "ok":
            ctx.violation(f"evaluation-raises-{type(aout[1]).__name__}", f"requirement_constraint_evaluation({s!r}) under {asg} {describe(aout)[:200]}", case=wcase)
            continue
        fce = aout[1].format_constraints_expression
        judge_fce(ctx, "requirement_constraint_evaluation", s, ast, asg, fce, wcase)
        fout = await H.async_format(fce, world)
        if fout[0] != "ok":
            ctx.violation(f"fc-evaluation-raises-{type(fout[1]).__name__}", f"format_constraint_evaluation({fce!r}) (collected from {s!r} under {asg}) {describe(fout)[:200]}", case=wcase)
            continue
        ref = with_group(logic.ref_fc(ast, asg, True), case.get("group"))
        alt = with_group(logic.ref_fc(ast, asg, False), case.get("group"))
        expected = {True if r is None else logic.bool_eval(r, fa) for r in (ref, alt)}
        if fout[1].format_constraints_fulfilled not in expected:
            ctx.violation("fc-expression-meaning", f"format_constraint_evaluation({fce!r}) under {fa} = {fout[1].format_constraints_fulfilled}; direct reading of {s!r} under {asg} gives {sorted(expected)}", case=wcase)


async def run(ctx):
    rng = ctx.rng
    E.install()
    await small_scope(ctx)
    for i in range(ctx.budget(1000, 100_000)):
        r = rng.random()
        # more format constraints than in C04: that is what this property is about
        ast = G.gen_valid(rng, rng.randint(1, 4), G.DEFAULT_POOLS if r < 0.9 else G.EDGE_POOLS, max_leaves=12 if r < 0.92 else 20, invalid_pred=logic.structurally_invalid, p_fc_leaf=0.25, p_then=0.45)
        case = {"ast": ast, "s": G.render(ast, rng)}
        await check_expression(ctx, case)
        if i % 250 == 0:
            rcs = G.keys_of(ast, "rc")
            asg = {k: "F" for k in rcs}
            ctx.sample({"s": case["s"], "all_fulfilled_reference_collection": repr(logic.ref_fc(ast, asg))}, cls="expression")
    for i in range(ctx.budget(150, 15_000)):
        case = gen_group_case(rng)
        if case is not None:
            ctx.count("expressions_with_an_attached_group")
            await check_expression(ctx, case)
            if i % 60 == 0:
                ctx.sample({"s": case["s"]}, cls="attached-group")


def gen_group_case(rng):
    """a bracketed GROUP of format constraints attached by juxtaposition (to the right of a hint or of an operand with a requirement
    constraint) instead of a single key: '[1]([901] O [902])'. Built from an expression of the usual domain: one attached key is
    the placeholder, its text is replaced by the group's"""
    exact = G.Style(p_redundant=0.0, flat_runs=0.0, spell=0, ws="")
    for _ in range(200):
        ast = G.gen_valid(rng, rng.randint(1, 3), G.DEFAULT_POOLS, max_leaves=9, invalid_pred=logic.structurally_invalid, p_fc_leaf=0.2, p_then=0.6)
        spots = [p for p in G.paths(ast) if G.get_at(ast, p)[0] == "then" and G.get_at(ast, p)[2][0] == "fc" and G.get_at(ast, p)[1][0] != "fc"]
        if not spots:
            continue
        spot = rng.choice(spots)
        ast = G.replace_at(ast, list(spot) + [2], ["fc", PLACEHOLDER])
        keys = rng.sample(G.FC_POOL, rng.randint(2, 3))
        group = ["fc", keys[0]]
        for k in keys[1:]:
            group = [rng.choice(["and", "or", "xor"]), group, ["fc", k]] if rng.random() < 0.5 else [rng.choice(["and", "or", "xor"]), ["fc", k], group]
        text = G.render(ast, rng, exact)
        if text.count(f"[{PLACEHOLDER}]") != 1:
            continue
        return {"ast": ast, "group": group, "s": text.replace(f"[{PLACEHOLDER}]", "(" + G.render(group, rng, exact) + ")")}
    return None


async def small_scope(ctx):
    """EVERY valid expression with up to 3 (thorough: 4) leaves over {[1], [2], [501], [901], [902]} x all assignments x all truth assignments"""
    idx = 0
    for n in range(1, (3 if ctx.quick else 4) + 1):
        for ast in G.enumerate_asts(n):
            idx += 1
            if not ctx.mine(idx) or logic.structurally_invalid(ast):
                continue
            await check_expression(ctx, {"ast": ast, "s": G.render(ast, ctx.rng, G.Style(p_redundant=0.0, flat_runs=0.0, spell=0, ws=""))})
            ctx.count("small_scope_expressions")
    ctx.note("small_scope", "every structurally valid expression of the evaluation domain with up to %d leaves over 2 requirement keys, 1 hint, 2 format constraints" % (3 if ctx.quick else 4))


async def replay(ctx, phase, case):
    E.install()
    await check_expression(ctx, case)
