"""C18 - key extraction partitions keys by number range; the generated set of possible evaluation results is the Cartesian product."""

import asyncio
import re
from itertools import product

from vf import evaluators as E
from vf import sched
from vf.gen import expr as G
from vf.monitors import REF_OF, acapture, capture, describe

from ahbicht.condition_node_distinction import derive_condition_node_type
from ahbicht.expressions.condition_expression_parser import extract_categorized_keys
from ahbicht.models.categorized_key_extract import CategorizedKeyExtract
from ahbicht.models.condition_node_type import ConditionNodeType

PKG_TABLE = {
    "1P": "[1]U[501]",
    "2P": "([2]O[3])[901]",
    "3P": "[10P]U[4]",  # contains a further package: only one level is expanded
    "10P": "[UB1]U[5]",
    "99P": "[2000]X[2499]",
    "123P": "[500]U[900]U[999]U[499]",
    # 4711P is unknown to the resolver
}


def ref_category(number: int):
    if 1 <= number <= 499 or 2000 <= number <= 2499:
        return "rc"
    if 500 <= number <= 900:
        return "hint"
    if 901 <= number <= 999:
        return "fc"
    return None


EXPECTED_TYPE = {"rc": (ConditionNodeType.REQUIREMENT_CONSTRAINT, ConditionNodeType.REPEATABILITY_CONSTRAINT), "hint": (ConditionNodeType.HINT,), "fc": (ConditionNodeType.FORMAT_CONSTRAINT,)}


def check_classification(ctx, key: str):
    ctx.evaluation()
    ctx.set_case("classify", {"key": key})
    out = capture(derive_condition_node_type, key)
    if key.endswith("P"):
        if out[0] != "ok" or out[1] is not ConditionNodeType.PACKAGE:
            ctx.violation("classification", f"derive_condition_node_type({key!r}) {describe(out)}, expected PACKAGE")
        return
    cat = ref_category(int(key)) if re.fullmatch(r"[0-9]+", key) else None
    if cat is None:
        if out[0] == "ok":
            ctx.violation("out-of-range-key-accepted", f"derive_condition_node_type({key!r}) returned {out[1]!r}; the key is in no documented range and must be rejected")
        elif not isinstance(out[1], Exception):
            ctx.violation("classification", f"derive_condition_node_type({key!r}) {describe(out)}")
        return
    if out[0] != "ok" or out[1] not in EXPECTED_TYPE[cat]:
        ctx.violation("classification", f"derive_condition_node_type({key!r}) {describe(out)}, expected category {cat}")
    if cat == "rc" and out[0] == "ok":
        # 1-499 -> REQUIREMENT_CONSTRAINT, 2000-2499 -> REPEATABILITY_CONSTRAINT (both are requirement constraints for extraction)
        want = ConditionNodeType.REQUIREMENT_CONSTRAINT if int(key) <= 499 else ConditionNodeType.REPEATABILITY_CONSTRAINT
        if out[1] is not want:
            ctx.violation("classification", f"derive_condition_node_type({key!r}) = {out[1]!r}, expected {want!r}")


# ---- reference extraction on token level ------------------------------------------------------------------
ATOM_RE = re.compile(r"\[\s*(?:(UB[123])|([0-9]+P)\s*([0-9]+\.\.[0-9]+)?|([0-9]+))\s*\]")


def ref_extract(s: str, resolve_packages: bool, replace_time_conditions: bool, _level=0):
    """returns dict of sets (rc, hint, fc as ints; pkg, ub as strings) or ("reject", why) / ("unknown-package", key)"""
    acc = {"rc": set(), "hint": set(), "fc": set(), "pkg": set(), "ub": set()}
    for m in ATOM_RE.finditer(s):
        ub, pkg, _rep, key = m.groups()
        if ub:
            if replace_time_conditions:
                if ub == "UB1":
                    acc["fc"].add("932")
                elif ub == "UB2":
                    acc["fc"].add("934")
                else:
                    acc["fc"].update(("932", "934"))
                    acc["rc"].update(("492", "493"))
            else:
                acc["ub"].add(ub)
        elif pkg:
            if resolve_packages and _level == 0:
                if pkg not in PKG_TABLE:
                    return ("unknown-package", pkg)
                inner = ref_extract(PKG_TABLE[pkg], False, replace_time_conditions, _level=1)
                if isinstance(inner, tuple):
                    return inner
                for k, v in inner.items():
                    acc[k].update(v)
            else:
                acc["pkg"].add(pkg)
        else:
            cat = ref_category(int(key))
            if cat is None:
                return ("reject", key)
            acc[cat].add(key)  # as written: '007' and '7' are two keys (of the same number)
    return acc


def compare_extract(ctx, what: str, got: CategorizedKeyExtract, ref) -> None:
    for name, attr, numeric in (("rc", "requirement_constraint_keys", True), ("hint", "hint_keys", True), ("fc", "format_constraint_keys", True), ("pkg", "package_keys", False), ("ub", "time_condition_keys", False)):
        lst = list(getattr(got, attr))
        if len(lst) != len(set(lst)):
            ctx.violation("extract-duplicates", f"{what}: {attr} = {lst} lists a key more than once")
        if numeric:
            want = sorted(ref[name], key=int)
            numbers = [int(k) for k in lst] if all(k.isdigit() for k in lst) else None
            if set(lst) != set(want) or numbers is None:
                ctx.violation("extract-partition", f"{what}: {attr} = {lst}, expected the keys {want}")
            elif numbers != sorted(numbers):
                ctx.violation("extract-order", f"{what}: {attr} = {lst} is not in ascending numeric order (expected e.g. {want})")
        else:
            if set(lst) != ref[name]:
                ctx.violation("extract-partition", f"{what}: {attr} = {lst}, expected the members {sorted(ref[name])}")


def atom_c18(rng):
    r = rng.random()
    if r < 0.1:
        key = rng.choice(list(PKG_TABLE) + ["4711P"] if rng.random() < 0.15 else list(PKG_TABLE))
        rep = rng.choice(["", "", "0..1", "1..1", "2..5"])
        return f"[{key}{rep}]"
    if r < 0.18:
        return "[UB%d]" % rng.randint(1, 3)
    if r < 0.2:
        return "[%d]" % rng.choice([0, 1000, 1500, 1999, 2500, 3000, 99999])  # in no documented range
    if r < 0.26:
        return "[%s]" % rng.choice(["007", "08", "0501", "0950", "01", "0499", "02000", "00900"])  # leading zeros: the same numbers, other spellings
    if r < 0.5:
        return "[%d]" % rng.choice([1, 499, 500, 900, 901, 999, 2000, 2499, 9, 10, 11, 99, 100, 101])
    return "[%d]" % rng.choice([rng.randint(1, 499), rng.randint(500, 900), rng.randint(901, 999), rng.randint(2000, 2499), rng.randint(1, 30)])


async def real_extract(s, resolve, replace):
    world = E.World("c18", pkg=dict(PKG_TABLE))

    async def go():
        E.set_world(world)
        return await extract_categorized_keys(s, resolve_packages=resolve, replace_time_conditions=replace)

    return await sched.run_under(None, go)


async def check_extraction(ctx, case):
    s, resolve, replace = case["s"], case["resolve"], case["replace"]
    ctx.set_case("extract", case)
    ctx.evaluation()
    what = f"extract_categorized_keys({s!r}, resolve_packages={resolve}, replace_time_conditions={replace})"
    ref = ref_extract(s, resolve, replace)
    out = await real_extract(s, resolve, replace)
    if isinstance(ref, tuple):
        if ref[0] == "reject":
            ctx.count("extract_out_of_range")
            if out[0] == "ok":
                ctx.violation("out-of-range-key-accepted", f"{what} returned {out[1]!r} although key {ref[1]} is in no documented range")
        else:
            ctx.count("extract_unknown_package")
            if out[0] == "ok" or not isinstance(out[1], NotImplementedError):
                ctx.violation("unknown-package", f"{what} {describe(out)}; package {ref[1]} is unknown to the resolver, expected NotImplementedError")
        return None
    if out[0] != "ok":
        ctx.violation("extract-raises", f"{what} {describe(out)}")
        return None
    compare_extract(ctx, what, out[1], ref)
    ncat = sum(1 for v in ref.values() if v)
    if ncat >= 2:
        ctx.nontrivial(["extract", s, resolve, replace])
    return out[1]


async def check_union(ctx, case):
    a, b, resolve, replace = case["a"], case["b"], case["resolve"], case["replace"]
    ctx.set_case("union", case)
    ra, rb = ref_extract(a, resolve, replace), ref_extract(b, resolve, replace)
    if isinstance(ra, tuple) or isinstance(rb, tuple):
        return
    ctx.evaluation()
    oa, ob = await real_extract(a, resolve, replace), await real_extract(b, resolve, replace)
    composed = f"({a}) {ctx.rng.choice(['U', 'O', 'X', '∧', ''])} ({b})" if not ctx.replaying else f"({a}) U ({b})"
    oc = await real_extract(composed, resolve, replace)
    if oa[0] != "ok" or ob[0] != "ok" or oc[0] != "ok":
        ctx.violation("extract-raises", f"extraction of {a!r} / {b!r} / {composed!r}: {describe(oa)[:80]} / {describe(ob)[:80]} / {describe(oc)[:80]}")
        return
    ctx.count("union_cases")
    summed = capture(lambda: oa[1] + ob[1])
    if summed[0] != "ok":
        ctx.violation("extract-raises", f"extract({a!r}) + extract({b!r}) {describe(summed)}")
        return
    ref_union = {k: ra[k] | rb[k] for k in ra}
    compare_extract(ctx, f"extract({a!r}) + extract({b!r})", summed[1], ref_union)
    compare_extract(ctx, f"extract({composed!r})", oc[1], ref_union)
    # the same extract object used in a second sum (a template extract combined with several others): the union law must hold again
    c = case.get("c")
    if c is not None:
        rc3 = ref_extract(c, resolve, replace)
        o3 = await real_extract(c, resolve, replace)
        if not isinstance(rc3, tuple) and o3[0] == "ok":
            second = capture(lambda: oa[1] + o3[1])
            ctx.count("union_second_sums")
            if second[0] != "ok":
                ctx.violation("extract-raises", f"extract({a!r}) + extract({c!r}) (second sum with the same left summand) {describe(second)}")
                return
            compare_extract(ctx, f"extract({a!r}) + extract({c!r}) after the same left summand was already added to extract({b!r})", second[1], {k: ra[k] | rc3[k] for k in ra})
            again = await real_extract(a, resolve, replace)
            if again[0] == "ok" and again[1] != oa[1]:
                ctx.violation("extract-union", f"extract({a!r}) was changed by being used as a summand: now {oa[1]!r}, extracted afresh {again[1]!r}")
                return
    for attr in ("requirement_constraint_keys", "hint_keys", "format_constraint_keys"):
        # (two spellings of one number, '1' and '01', may come in either order: compared as sorted by (number, spelling))
        if sorted(getattr(summed[1], attr), key=lambda k: (int(k), k)) != sorted(getattr(oc[1], attr), key=lambda k: (int(k), k)):
            ctx.violation("extract-union", f"{attr}: extract(A)+extract(B) = {getattr(summed[1], attr)} but extract('(A) op (B)') = {getattr(oc[1], attr)} for A={a!r}, B={b!r}")
    ctx.nontrivial(["union", a, b, resolve, replace])


def check_product(ctx, case):
    rcs, fcs, hints = case["rc"], case["fc"], case["hints"]
    ctx.set_case("product", case)
    ctx.evaluation()
    m, n = len(rcs), len(fcs)
    extract = CategorizedKeyExtract(hint_keys=list(hints), format_constraint_keys=list(fcs), requirement_constraint_keys=list(rcs), package_keys=[], time_condition_keys=[])
    out = capture(extract.generate_possible_content_evaluation_results)
    what = f"generate_possible_content_evaluation_results(rc={rcs}, fc={fcs}, hints={hints})"
    if out[0] != "ok":
        ctx.violation("product-raises", f"{what} {describe(out)}")
        return
    results = out[1]
    ctx.count("product_results_checked", len(results))
    seen = {}
    for cer in results:
        try:
            rc_part = tuple(sorted((k, REF_OF[v]) for k, v in cer.requirement_constraints.items()))
            fc_part = tuple(sorted((k, bool(v.format_constraint_fulfilled)) for k, v in cer.format_constraints.items()))
        except (KeyError, AttributeError) as err:
            ctx.violation("product-member", f"{what}: malformed member {cer!r}: {err!r}")
            return
        if any(state == "N" for _k, state in rc_part):
            ctx.violation("product-neutral", f"{what}: a generated result assigns NEUTRAL to a requirement constraint: {rc_part}")
        for h in hints:
            if not (cer.hints or {}).get(h):
                ctx.violation("product-hints", f"{what}: hint key {h} has no text in a generated result")
                break
        key = (rc_part, fc_part)
        seen[key] = seen.get(key, 0) + 1
    expected = set()
    for rc_combo in product("FUK", repeat=m):
        for fc_combo in product((True, False), repeat=n):
            expected.add((tuple(sorted(zip(rcs, rc_combo))), tuple(sorted(zip(fcs, fc_combo)))))
    dup = [k for k, c in seen.items() if c > 1]
    if dup:
        ctx.violation("product-duplicates", f"{what}: {len(dup)} combinations generated more than once, e.g. {dup[0]}")
    missing = expected - set(seen)
    extra = set(seen) - expected
    if missing:
        ctx.violation("product-missing", f"{what}: {len(missing)} of {len(expected)} combinations missing, e.g. {sorted(missing)[0]}")
    if extra:
        ctx.violation("product-extra", f"{what}: {len(extra)} unexpected combinations, e.g. {sorted(extra)[0]}")
    if len(results) != 3**m * 2**n:
        ctx.violation("product-size", f"{what}: {len(results)} results, expected 3^{m}*2^{n} = {3 ** m * 2 ** n}")
    ctx.nontrivial(["product", m, n, rcs, fcs])
    # the same extract object after its (public, mutable) key lists were changed: the product of the CURRENT keys
    if case.get("extend") and m + n <= 7:
        extra_rc, extra_fc = case["extend"]
        extract.requirement_constraint_keys.append(extra_rc)
        extract.format_constraint_keys = extract.format_constraint_keys + [extra_fc]
        again = capture(extract.generate_possible_content_evaluation_results)
        ctx.count("products_after_changing_the_keys")
        if again[0] != "ok":
            ctx.violation("product-raises", f"{what}, then keys {extra_rc}/{extra_fc} added, generated again: {describe(again)}")
            return
        if len(again[1]) != 3 ** (m + 1) * 2 ** (n + 1):
            ctx.violation("product-size", f"{what}: after adding requirement key {extra_rc} and format key {extra_fc} to the same extract, {len(again[1])} results are generated, expected 3^{m + 1}*2^{n + 1} = {3 ** (m + 1) * 2 ** (n + 1)}")
            return
        if not all(extra_rc in cer.requirement_constraints and extra_fc in cer.format_constraints for cer in again[1]):
            ctx.violation("product-missing", f"{what}: after adding keys {extra_rc}/{extra_fc} the generated results do not mention them")


async def run(ctx):
    rng = ctx.rng
    E.install()
    # ---- classification: every integer 0..3000 (all boundaries), spellings, huge numbers, packages ------------------
    for number in range(0, 3001):
        if ctx.mine(number):
            check_classification(ctx, str(number))
            ctx.count("classified_integers")
            if number in (0, 1, 499, 500, 900, 901, 999, 1000, 1999, 2000, 2499, 2500):
                ctx.nontrivial(["boundary", number])
    if ctx.shard == 0:
        for key in ["007", "0499", "0500", "00901", "02000", "0", "00", "3001", "9999", "10000", "24990", "20000", "4990", "5000", str(10**30), str(2**64), "1P", "0P", "123P", "99999P", "UB1", "", "abc", "-1", "1.5"]:  # ASCII spellings only: non-ASCII digits cannot come out of the grammar and int() would read them as numbers
            check_classification(ctx, key)
        ctx.sample({"classified": "every integer 0..3000 plus leading-zero / huge / package / non-numeric spellings"}, cls="classification")
    # ---- extraction -----------------------------------------------------------------------------------------------
    if ctx.shard == 0:
        # fixed cases that every run must contain whatever the seed: unknown package, out-of-range keys, nested package, all flags
        for s, resolve, replace in [("[1]U[4711P]", True, False), ("Muss [4711P0..1] O [2]", True, True), ("[1]U[4711P]", False, False), ("[0]U[1]", False, False), ("[1]U[1000]", False, True), ("[2500]", False, False),
                                    ("[53] U [007]", False, False), ("[502] [0501] U [0950][951]", False, False), ("[7]U[007]U[07]", False, False), ("[7] U [007] U [7]", False, False), ("[0501] O [501] O [0501] U [00901][901][00901]", False, False), ("Muss [7] U [007] Kann [7]", False, False),
                                    ("[3P]U[UB3]", True, True), ("[3P]U[UB3]", True, False), ("[3P]U[UB3]", False, True), ("[123P][10P]", True, True), ("[499]U[500]U[900]U[901]U[999]U[2000]U[2499]", False, False)]:
            await check_extraction(ctx, {"s": s, "resolve": resolve, "replace": replace})
            ctx.count("extract_cases")
    for i in range(ctx.budget(700, 60_000)):
        toks = G.gen_tokens(rng, max_items=rng.randint(1, 7), depth=2, atom=atom_c18)
        s = G.join_tokens(toks, rng)
        if rng.random() < 0.15:
            s = rng.choice(["Muss", "Soll", "Kann", "X", "muss", "K"]) + rng.choice(["", " "]) + s
        case = {"s": s, "resolve": rng.random() < 0.5, "replace": rng.random() < 0.5}
        await check_extraction(ctx, case)
        ctx.count("extract_cases")
        if i % 200 == 0:
            ctx.sample(case, cls="extract")
    for i in range(ctx.budget(250, 20_000)):
        a = G.join_tokens(G.gen_tokens(rng, max_items=4, depth=1, atom=atom_c18), rng)
        b = G.join_tokens(G.gen_tokens(rng, max_items=4, depth=1, atom=atom_c18), rng)
        c = G.join_tokens(G.gen_tokens(rng, max_items=4, depth=1, atom=atom_c18), rng)
        await check_union(ctx, {"a": a, "b": b, "c": c, "resolve": rng.random() < 0.5, "replace": rng.random() < 0.5})
    # ---- the product: all (m, n) ----------------------------------------------------------------------------------
    max_m, max_n = (4, 5) if ctx.quick else (6, 7)
    idx = 0
    for m in range(0, max_m + 1):
        for n in range(0, max_n + 1):
            if (m, n) == (0, 0):
                continue  # the empty product is not demanded either way (the pinned suite asserts [])
            idx += 1
            if not ctx.mine(idx):
                continue
            if m + n > 11:
                continue
            reps = 1 if (m >= 5 or n >= 6) else 2
            for _ in range(reps):
                rcs = [str(k) for k in rng.sample([1, 2, 3, 9, 10, 11, 100, 499, 2000, 2499, 250], m)]
                fcs = [str(k) for k in rng.sample([901, 902, 903, 950, 999, 931, 932, 910], n)]
                hints = [str(k) for k in rng.sample([500, 501, 900, 777], rng.randint(0, 3))]
                check_product(ctx, {"rc": rcs, "fc": fcs, "hints": hints, "extend": ["77", "977"]})
                ctx.count("product_shapes")
    ctx.sample({"product": "all (m, n) up to (%d, %d)" % (max_m, max_n)}, cls="product")


async def replay(ctx, phase, case):
    E.install()
    if phase == "classify":
        check_classification(ctx, case["key"])
    elif phase == "extract":
        await check_extraction(ctx, case)
    elif phase == "union":
        await check_union(ctx, case)
    elif phase == "product":
        check_product(ctx, case)
