"""C04 - requirement-constraint evaluation equals the documented compositional semantics."""

from vf import evalhelp as H
from vf import evaluators as E
from vf import sched
from vf.gen import expr as G
from vf.monitors import OperatorMonitor, capture, describe
from vf.ref import logic

from ahbicht.expressions.condition_expression_parser import parse_condition_expression_to_tree
from ahbicht.expressions.requirement_constraint_expression_evaluation import evaluate_requirement_constraint_tree, requirement_constraint_evaluation


def nontrivial(ast) -> bool:
    return len(G.keys_of(ast, "rc")) >= 2 and (bool(G.keys_of(ast, "hint")) or bool(G.keys_of(ast, "fc")))


async def check_expression(ctx, case, async_budget=12):
    """case: {"ast":..., "s": rendered string}"""
    ast, s = case["ast"], case["s"]
    rng = ctx.case_rng(case)
    ctx.set_case("expression", case)
    out = capture(parse_condition_expression_to_tree, s)
    if out[0] != "ok":
        ctx.violation("valid-expression-not-parsed", f"parse_condition_expression_to_tree({s!r}) {describe(out)[:200]}")
        return
    tree = out[1]
    rcs = G.keys_of(ast, "rc")
    asgs = case.get("assignments") or H.assignments_for(rcs, rng)
    ctx.count("expressions")
    if nontrivial(ast):
        ctx.nontrivial(s)
        ctx.count("nontrivial_expressions")
    for asg in asgs:
        ctx.evaluation()
        expected = logic.ref_eval(ast, asg)
        kind, val = H.direct_state(tree, ast, asg)
        if kind != "state":
            ctx.violation("valid-expression-raises" if kind == "invalid" else f"evaluation-raises-{type(val).__name__}", f"evaluate_requirement_constraint_tree({s!r}, {asg}) raised {val!r:.300}; the expression is valid, expected state {logic.NAME[expected]}", case=dict(case, assignments=[asg]))
            continue
        if val[0] != expected:
            ctx.violation("state", f"{s!r} under {asg}: evaluate_requirement_constraint_tree gives {logic.NAME[val[0]]}, recursive four-valued semantics gives {logic.NAME[expected]}", case=dict(case, assignments=[asg]))
        if "K" in asg.values():
            ctx.count("evaluations_with_unknown")
        if rng.random() < 0.1:
            # the caller keeps its input nodes and its tree and evaluates again: nothing may have been consumed or altered
            nodes = H.input_nodes(ast, asg)
            r1 = capture(evaluate_requirement_constraint_tree, tree, nodes)
            r2 = capture(evaluate_requirement_constraint_tree, tree, nodes)
            ctx.count("re_evaluations_with_same_objects")
            a = getattr(r1[1], "conditions_fulfilled", r1[1]) if r1[0] == "ok" else type(r1[1]).__name__
            b = getattr(r2[1], "conditions_fulfilled", r2[1]) if r2[0] == "ok" else type(r2[1]).__name__
            if a != b or (r1[0] == "ok" and (getattr(r1[1], "hint", None), getattr(r1[1], "format_constraints_expression", None)) != (getattr(r2[1], "hint", None), getattr(r2[1], "format_constraints_expression", None))):
                ctx.violation("re-evaluation-differs", f"{s!r} under {asg}: evaluating twice with the same tree and the same input node objects gives {r1[1]!r:.200} and then {r2[1]!r:.200}", case=dict(case, assignments=[asg]))
    # the async API: same state, reported per the documented mapping
    picks = asgs if len(asgs) <= async_budget else rng.sample(asgs, async_budget)
    for asg in picks:
        ctx.evaluation()
        ctx.count("async_evaluations")
        expected = logic.OUTCOME[logic.ref_eval(ast, asg)]
        world = H.world_for(ast, asg, hints_sync=rng.random() < 0.3)
        if rng.random() < 0.3:
            # the EvaluatableDataProvider is a context manager (python-inject enters it around the injected call): the data are released
            # when the function they were injected into returns - the evaluators must have run by then
            world.data_as_context_manager = True
            ctx.count("async_evaluations_with_context_managed_data")
        # half of them with every harness awaitable parked and released in a random order (the semantics must not depend on it)
        scheduler = sched.Sched(sched.RandomChooser(rng)) if rng.random() < 0.5 else None
        if scheduler is not None:
            ctx.count("async_evaluations_under_random_completion_order")
        aout = await H.async_requirement(s if rng.random() < 0.7 else tree, world, scheduler)
        if aout[0] != "ok":
            ctx.violation(f"evaluation-raises-{type(aout[1]).__name__}", f"requirement_constraint_evaluation({s!r}) under {asg} {describe(aout)[:300]}", case=case)
            continue
        res = aout[1]
        got = (res.requirement_constraints_fulfilled, res.requirement_is_conditional)
        if got != expected:
            ctx.violation("outcome-mapping", f"{s!r} under {asg}: (fulfilled, conditional) = {got}, documented mapping of state {logic.NAME[logic.ref_eval(ast, asg)]} is {expected}", case=case)


async def check_neutral_outcomes(ctx, case):
    """a user requirement evaluator may answer NEUTRAL (documented outcome of an evaluation method): and-compositions of requirement
    constraints and hints under assignments over all FOUR states, through the async API with the harness evaluator"""
    ast, s = case["ast"], case["s"]
    ctx.set_case("neutral-outcomes", case)
    rng = ctx.case_rng(case)
    rcs = G.keys_of(ast, "rc")
    asgs = case.get("assignments") or [a for a in logic.assignments(rcs, ("F", "U", "K", "N")) if "N" in a.values()]
    if len(asgs) > 12:
        asgs = rng.sample(asgs, 12)
    for asg in asgs:
        ctx.evaluation()
        ctx.count("evaluations_with_neutral_requirement_outcome")
        state = logic.ref_eval(ast, asg)
        expected = logic.OUTCOME[state]
        aout = await H.async_requirement(s, H.world_for(ast, asg), sched.Sched(sched.RandomChooser(rng)) if rng.random() < 0.5 else None)
        wcase = dict(case, assignments=[asg])
        if aout[0] != "ok":
            ctx.violation(f"evaluation-raises-{type(aout[1]).__name__}", f"requirement_constraint_evaluation({s!r}) under {asg} (NEUTRAL answered by the user's evaluator) {describe(aout)[:300]}", case=wcase)
            continue
        got = (aout[1].requirement_constraints_fulfilled, aout[1].requirement_is_conditional)
        if got != expected:
            ctx.violation("outcome-mapping", f"{s!r} under {asg} (NEUTRAL answered by the user's evaluator): (fulfilled, conditional) = {got}, documented mapping of state {logic.NAME[state]} is {expected}", case=wcase)


def gen_and_only(rng):
    n = rng.randint(1, 4)
    leaves = [["rc", k] for k in rng.sample(G.RC_POOL, min(n, len(G.RC_POOL)))]
    if rng.random() < 0.4:
        leaves.append(["hint", rng.choice(G.HINT_POOL)])
    rng.shuffle(leaves)
    ast = leaves[0]
    for leaf in leaves[1:]:
        ast = ["and", ast, leaf] if rng.random() < 0.5 else ["and", leaf, ast]
    return {"ast": ast, "s": G.render(ast, rng)}


def make_case(rng, depth, pools, max_leaves):
    ast = G.gen_valid(rng, depth, pools, max_leaves=max_leaves, invalid_pred=logic.structurally_invalid)
    return {"ast": ast, "s": G.render(ast, rng)}


async def run(ctx):
    rng = ctx.rng
    E.install()

    def on_violation(kind, message, extra):
        ctx.violation(kind, message, extra)

    with OperatorMonitor(on_violation) as mon:
        for i in range(ctx.budget(1200, 120_000)):
            r = rng.random()
            if r < 0.75:
                case = make_case(rng, rng.randint(0, 4), G.DEFAULT_POOLS, 12)
            elif r < 0.9:
                case = make_case(rng, rng.randint(1, 4), G.EDGE_POOLS, 10)
            else:
                case = make_case(rng, rng.randint(4, 6), G.DEFAULT_POOLS, 24 if ctx.quick else 30)
            await check_expression(ctx, case)
            if i % 4 == 0:
                await check_shipped(ctx, case)
            if i % 300 == 0:
                ctx.sample({"s": case["s"], "rc_keys": G.keys_of(case["ast"], "rc")}, cls="expression")
        for i in range(ctx.budget(150, 15_000)):
            await check_neutral_outcomes(ctx, gen_and_only(rng))
        # ---- small scope, complete: EVERY valid expression with up to 3 (thorough: 4) leaves over {[1], [2], [501], [901], [902]} x all assignments
        idx = 0
        for n in range(1, (3 if ctx.quick else 4) + 1):
            for ast in G.enumerate_asts(n):
                idx += 1
                if not ctx.mine(idx) or logic.structurally_invalid(ast):
                    continue
                await check_expression(ctx, {"ast": ast, "s": G.render(ast, rng, G.Style(p_redundant=0.0, flat_runs=0.0, spell=0, ws=""))}, async_budget=1 if n >= 3 else 9)
                ctx.count("small_scope_expressions")
        ctx.note("small_scope", "every structurally valid expression of the evaluation domain with up to %d leaves over 2 requirement keys, 1 hint, 2 format constraints, under all 3^k assignments" % (3 if ctx.quick else 4))
        ctx.count("operator_calls_observed", mon.calls)


async def check_shipped(ctx, case):
    """the same expression through the library's own dictionary based and ContentEvaluationResult based evaluators"""
    ast, s = case["ast"], case["s"]
    ctx.set_case("shipped", case)
    rcs = G.keys_of(ast, "rc")
    hints = {k: "Hinweis " + k for k in G.keys_of(ast, "hint")}
    crng = ctx.case_rng(case)
    asgs = case.get("assignments") or [{k: crng.choice("FUK") for k in rcs} for _ in range(3)]
    # mode by mode, the assignments one after the other: consecutive messages through the same evaluator instances / the same data object
    for mode in ("hardcoded", "cer", "cer-long-lived", "instances"):
        for asg in asgs:
            built = capture(E.make_cer, asg, {k: True for k in G.keys_of(ast, "fc")}, hints)
            if built[0] != "ok":
                ctx.violation(f"content-evaluation-result-rejected-{type(built[1]).__name__}", f"a ContentEvaluationResult for {s!r} with the requirement constraints {asg} cannot be built: {describe(built)[:300]} (every key the expression language classifies as requirement constraint can carry an outcome)", case=dict(case, assignments=asgs))
                return
            cer = built[1]
            expected = logic.OUTCOME[logic.ref_eval(ast, asg)]
            ctx.evaluation()
            ctx.count("evaluations_with_shipped_evaluators")
            ctx.count("mode:" + mode)
            out = await H.with_shipped_evaluators(mode, cer, lambda: requirement_constraint_evaluation(s))
            wcase = dict(case, assignments=asgs)
            if out[0] != "ok":
                ctx.violation(f"evaluation-raises-{type(out[1]).__name__}", f"requirement_constraint_evaluation({s!r}) with the {mode} evaluators under {asg} {describe(out)[:300]}", case=wcase)
                return
            got = (out[1].requirement_constraints_fulfilled, out[1].requirement_is_conditional)
            if got != expected:
                ctx.violation("outcome-mapping", f"{s!r} under {asg} with the {mode} evaluators (after the assignments {asgs[:asgs.index(asg)]} in the same process): (fulfilled, conditional) = {got}, documented mapping of state {logic.NAME[logic.ref_eval(ast, asg)]} is {expected}", case=wcase)
                return


async def replay(ctx, phase, case):
    E.install()
    if phase == "neutral-outcomes":
        await check_neutral_outcomes(ctx, case)
        return
    if phase == "shipped":
        await check_shipped(ctx, case)
    else:
        await check_expression(ctx, case, async_budget=10**9)
