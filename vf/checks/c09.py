"""C09 - AHB expressions split into their parts; the first fulfilled part decides."""

from vf import evalhelp as H
from vf import evaluators as E
from vf import sched
from vf.canon import canon, show
from vf.gen import ahb as GA
from vf.gen import expr as G
from vf.monitors import capture, describe
from vf.ref import logic
from vf.ref.syntax import WS_CORE

from ahbicht.content_evaluation.fc_evaluators import text_to_be_evaluated_by_format_constraint
from ahbicht.expressions.ahb_expression_evaluation import evaluate_ahb_expression_tree
from ahbicht.expressions.ahb_expression_parser import parse_ahb_expression_to_single_requirement_indicator_expressions
from ahbicht.expressions.condition_expression_parser import parse_condition_expression_to_tree
from ahbicht.expressions.expression_resolver import parse_expression_including_unresolved_subexpressions
from ahbicht.models.enums import ModalMark, PrefixOperator

NORMALISED = {"MUSS": ModalMark.MUSS, "SOLL": ModalMark.SOLL, "KANN": ModalMark.KANN, "X": PrefixOperator.X, "O": PrefixOperator.O, "U": PrefixOperator.U}
TOKEN_TYPE = {"MUSS": "MODAL_MARK", "SOLL": "MODAL_MARK", "KANN": "MODAL_MARK", "X": "PREFIX_OPERATOR", "O": "PREFIX_OPERATOR", "U": "PREFIX_OPERATOR"}


def build(parts, rng, spellings=None):
    """render a parts list; returns the case dict with the pieces as written"""
    sp = spellings or [GA.spelling(ind, rng) for ind, _c in parts]
    conds = []
    s = ""
    for (ind, cond), spell in zip(parts, sp):
        s += spell
        if cond is None:
            conds.append(None)
        else:
            text = rng.choice(GA.WS) + G.render(cond, rng) + rng.choice(GA.WS)
            conds.append(text)
            s += text
    return {"parts": parts, "spellings": sp, "conds": conds, "s": s}


def check_split(ctx, case):
    parts, sp, conds, s = case["parts"], case["spellings"], case["conds"], case["s"]
    # --- the AHB parser alone
    ctx.evaluation()
    out = capture(parse_ahb_expression_to_single_requirement_indicator_expressions, s)
    if out[0] != "ok":
        ctx.violation("ahb-expression-not-parsed", f"parse_ahb_expression_to_single_requirement_indicator_expressions({s!r}) {describe(out)[:200]}")
        return None
    c = canon(out[1])
    expected = []
    for (ind, _cond), spell, text in zip(parts, sp, conds):
        if text is None:
            expected.append(["T", "requirement_indicator", [["t", TOKEN_TYPE[ind], spell]]])
        else:
            expected.append(["T", "single_requirement_indicator_expression", [["t", TOKEN_TYPE[ind], spell], ["t", "CONDITION_EXPRESSION", text.strip(WS_CORE)]]])
    got_children = []
    if c[0] == "T" and c[1] == "ahb_expression":
        for child in c[2]:
            if child[0] == "T" and len(child[2]) == 2 and child[2][1][0] == "t" and child[2][1][1] == "CONDITION_EXPRESSION":
                child = ["T", child[1], [child[2][0], ["t", "CONDITION_EXPRESSION", child[2][1][2].strip(WS_CORE)]]]
            got_children.append(child)
    if c[0] != "T" or c[1] != "ahb_expression" or got_children != expected:
        ctx.violation("split", f"{s!r} is split into {show(c)}; written parts are {[(a, (t or '').strip()) for a, t in zip(sp, conds)]}")
        return None
    return out[1]


async def check_case(ctx, case):
    parts, sp, conds, s = case["parts"], case["spellings"], case["conds"], case["s"]
    rng = ctx.case_rng(case)
    ctx.set_case("ahb", case)
    ctx.count("ahb_expressions")
    ctx.count(f"form:{'bare' if len(parts) == 1 and parts[0][1] is None else ('prefix' if parts[0][0] in 'XOU' else 'modal')}")
    ctx.count(f"parts:{len(parts)}")
    if len(parts) >= 2:
        ctx.nontrivial(s)
    unresolved = check_split(ctx, case)
    if unresolved is None:
        return
    # --- the resolver: same parts, condition sub-tree = tree of that part's condition string parsed on its own
    ctx.evaluation()
    rout = await sched.run_under(None, lambda: parse_expression_including_unresolved_subexpressions(s))
    if rout[0] != "ok":
        ctx.violation("ahb-expression-not-parsed", f"parse_expression_including_unresolved_subexpressions({s!r}) {describe(rout)[:200]}")
        return
    rc = canon(rout[1])
    ok = rc[0] == "T" and rc[1] == "ahb_expression" and len(rc[2]) == len(parts)
    if ok:
        for child, (ind, _cond), spell, text in zip(rc[2], parts, sp, conds):
            if text is None:
                ok = ok and child == ["T", "requirement_indicator", [["t", TOKEN_TYPE[ind], spell]]]
            else:
                own = capture(parse_condition_expression_to_tree, text)
                ok = ok and own[0] == "ok" and child[0] == "T" and child[1] == "single_requirement_indicator_expression" and len(child[2]) == 2 and child[2][0] == ["t", TOKEN_TYPE[ind], spell] and child[2][1] == canon(own[1])
    if not ok:
        ctx.violation("split", f"resolver: {s!r} gives {show(rc)[:400]}; written parts are {[(a, (t or '').strip()) for a, t in zip(sp, conds)]}")
        return
    # --- evaluation: first part whose requirement constraints are fulfilled, else the last part
    rcs, fcs = [], []
    for _ind, cond in parts:
        if cond is not None:
            rcs += [k for k in G.keys_of(cond, "rc") if k not in rcs]
            fcs += [k for k in G.keys_of(cond, "fc") if k not in fcs]
    asgs = case.get("assignments") or H.assignments_for(rcs, rng, full_up_to=3, sample=20)
    hint_keys = []
    for _ind, cond in parts:
        if cond is not None:
            hint_keys += [k for k in G.keys_of(cond, "hint") if k not in hint_keys]
    for n_asg, asg in enumerate(asgs):
        fa = case.get("fa") or {k: rng.random() < 0.5 for k in fcs}
        wcase = dict(case, assignments=[asg], fa=fa)
        explicit = rng.random() < 0.5 or n_asg == 0
        world = E.World("c09", rc=asg, fc=fa, fc_msg={k: f"E{k}" for k in fcs} if explicit else None, hints={k: E.hint_text(k, "c09") for k in hint_keys})
        if n_asg == 0:
            # the library's own ready-made evaluators must give the same result as the harness evaluators for the same content evaluation result
            cer = E.make_cer(asg, fa, world.hints, fc_msg=world.fc_msg)

            async def reference_run():
                E.set_world(world)
                text_to_be_evaluated_by_format_constraint.set("text")
                return await evaluate_ahb_expression_tree(rout[1])

            ref_out = await sched.run_under(None, reference_run)
            for mode in ("hardcoded", "cer"):
                ctx.evaluation()
                ctx.count("evaluations_with_shipped_evaluators")
                shipped = await H.with_shipped_evaluators(mode, cer, lambda: evaluate_ahb_expression_tree(rout[1]))
                a = repr(ref_out[1]) if ref_out[0] == "ok" else "raises " + type(ref_out[1]).__name__
                b = repr(shipped[1]) if shipped[0] == "ok" else "raises " + type(shipped[1]).__name__ + ": " + str(shipped[1])[:120]
                if a != b:
                    ctx.violation("shipped-evaluators-differ", f"{s!r} under {asg}/{fa}: with the {mode} evaluators of evaluator_factory the result is {b[:400]}; with equivalent user evaluators it is {a[:400]}", case=wcase)
                    return
        # expected part
        outcomes = []
        for ind, cond in parts:
            outcomes.append(True if cond is None else logic.OUTCOME[logic.ref_eval(cond, asg)][0])
        chosen = next((i for i, f in enumerate(outcomes) if f), len(parts) - 1)
        if any(o is None for o in outcomes):
            ctx.count("evaluations_with_unknown_part")
        if chosen > 0:
            ctx.count("later_part_selected")
        for which, tree in (("resolved", rout[1]), ("unresolved", unresolved)):
            ctx.evaluation()

            async def go(tree=tree):
                E.set_world(world)
                text_to_be_evaluated_by_format_constraint.set("text")
                return await evaluate_ahb_expression_tree(tree)

            out = await sched.run_under(None, go)
            if out[0] != "ok":
                ctx.violation(f"evaluation-raises-{type(out[1]).__name__}", f"evaluate_ahb_expression_tree({which} tree of {s!r}) under {asg} {describe(out)[:300]}", case=wcase)
                return
            res = out[1]
            ind, cond = parts[chosen]
            if res.requirement_indicator is not NORMALISED[ind]:
                ctx.violation("selection", f"{s!r} under {asg}: reported indicator {res.requirement_indicator!r}, expected {NORMALISED[ind]!r} (part {chosen + 1} of {len(parts)}; parts fulfilled: {outcomes})", case=wcase)
                return
            rres, fres = res.requirement_constraint_evaluation_result, res.format_constraint_evaluation_result
            if cond is None:
                expect = (True, None, None, True, None)
                got = (rres.requirement_constraints_fulfilled, rres.hints, rres.format_constraints_expression, fres.format_constraints_fulfilled, fres.error_message)
                if got != expect or (len(parts) == 1 and rres.requirement_is_conditional is not False):
                    ctx.violation("bare-indicator-outcome", f"{s!r} under {asg}: bare indicator selected, outcome {got}, conditional={rres.requirement_is_conditional}", case=wcase)
                    return
                continue
            # the part's own condition expression evaluated on its own, same world
            own = await H.async_requirement(conds[chosen], world)
            if own[0] != "ok":
                ctx.violation(f"evaluation-raises-{type(own[1]).__name__}", f"requirement_constraint_evaluation({conds[chosen]!r}) {describe(own)[:200]}", case=wcase)
                return
            ownf = await H.async_format(own[1].format_constraints_expression, world, text="text")
            if ownf[0] != "ok":
                ctx.violation(f"evaluation-raises-{type(ownf[1]).__name__}", f"format_constraint_evaluation({own[1].format_constraints_expression!r}) {describe(ownf)[:200]}", case=wcase)
                return
            got = (rres.requirement_constraints_fulfilled, rres.hints, rres.format_constraints_expression, fres.format_constraints_fulfilled, fres.error_message)
            expect = (own[1].requirement_constraints_fulfilled, own[1].hints, own[1].format_constraints_expression, ownf[1].format_constraints_fulfilled, ownf[1].error_message)
            if got != expect:
                ctx.violation("part-outcome", f"{s!r} under {asg}/{fa}: selected part {chosen + 1} reports (fulfilled, hints, fc expression, format ok, message) = {got}; its own condition expression {conds[chosen]!r} gives {expect}", case=wcase)
                return
            if rres.requirement_constraints_fulfilled is not outcomes[chosen]:
                ctx.violation("part-outcome", f"{s!r} under {asg}: selected part reports fulfilled={rres.requirement_constraints_fulfilled!r}, reference semantics gives {outcomes[chosen]!r}", case=wcase)
                return
            # (a fulfilled part of SEVERAL modal-mark parts is reported conditional whatever its own expression says - documented in the code;
            # a part that is only returned because it is the last one keeps its own flag like a single part does)
            if (len(parts) == 1 or not outcomes[chosen]) and rres.requirement_is_conditional != own[1].requirement_is_conditional:
                ctx.violation("part-outcome", f"{s!r} under {asg}: requirement_is_conditional={rres.requirement_is_conditional!r}, the condition expression alone gives {own[1].requirement_is_conditional!r}", case=wcase)
                return


async def check_with_packages(ctx, case):
    """case: {"parts", "short": [[ind, abbreviated ast | None]], "table", "s", "plain": [cond text | None]} - the parts are WRITTEN with packages
    (each part possibly several, at different nesting depths); after resolution every part must still decide with its own condition expression"""
    parts, table, s, plain = case["parts"], case["table"], case["s"], case["plain"]
    rng = ctx.case_rng(case)
    ctx.set_case("packages", case)
    ctx.count("ahb_expressions_written_with_packages")
    rcs = []
    for _ind, cond in parts:
        if cond is not None:
            rcs += [k for k in G.keys_of(cond, "rc") if k not in rcs]
    fcs = sorted({k for _i, c in parts if c is not None for k in G.keys_of(c, "fc")})
    for asg in H.assignments_for(rcs, rng, full_up_to=3, sample=12):
        fa = {k: rng.random() < 0.5 for k in fcs}
        world = E.World("c09", rc=asg, fc=fa, fc_msg={k: f"E{k}" for k in fcs}, pkg=table)
        wcase = dict(case, assignments=[asg])

        async def go():
            E.set_world(world)
            text_to_be_evaluated_by_format_constraint.set("text")
            tree = await parse_expression_including_unresolved_subexpressions(s, resolve_packages=True)
            return await evaluate_ahb_expression_tree(tree)

        out = await sched.run_under(sched.Sched(sched.RandomChooser(rng)) if rng.random() < 0.5 else None, go)
        ctx.evaluation()
        if out[0] != "ok":
            ctx.violation(f"evaluation-raises-{type(out[1]).__name__}", f"{s!r} with packages {table} under {asg} {describe(out)[:300]}", case=wcase)
            return
        outcomes = [True if cond is None else logic.OUTCOME[logic.ref_eval(cond, asg)][0] for _ind, cond in parts]
        chosen = next((i for i, f in enumerate(outcomes) if f), len(parts) - 1)
        res = out[1]
        if res.requirement_indicator is not NORMALISED[parts[chosen][0]]:
            ctx.violation("selection", f"{s!r} with packages {table} under {asg}: reported indicator {res.requirement_indicator!r}, expected part {chosen + 1} ({parts[chosen][0]}); parts fulfilled: {outcomes}", case=wcase)
            return
        if parts[chosen][1] is None:
            continue
        own = await H.async_requirement(plain[chosen], E.World("c09", rc=asg, fc=fa, fc_msg={k: f"E{k}" for k in fcs}))
        if own[0] != "ok":
            continue
        rres = res.requirement_constraint_evaluation_result
        got = (rres.requirement_constraints_fulfilled, rres.hints, rres.format_constraints_expression)
        expect = (own[1].requirement_constraints_fulfilled, own[1].hints, own[1].format_constraints_expression)
        if got != expect:
            ctx.violation("part-outcome", f"{s!r} with packages {table} under {asg}: selected part {chosen + 1} reports (fulfilled, hints, fc expression) = {got}; its own condition expression with the packages written out ({plain[chosen]!r}) gives {expect}", case=wcase)
            return


def gen_package_case(rng, cond):
    parts = GA.gen_parts(rng, cond, max_parts=3, p_bare=0.0, p_prefix=0.15, p_trailing_bare=0.2)
    table, short, plain = {}, [], []
    names = [f"{n}P" for n in (11, 12, 13, 14, 15, 16)]
    for ind, c in parts:
        if c is None:
            short.append([ind, None])
            plain.append(None)
            continue
        free = [n for n in names if n not in table]
        c2, t = G.abbreviate(c, rng, free, max_packages=2) if free and rng.random() < 0.8 else (c, {})
        table.update(t)
        short.append([ind, c2])
        plain.append(G.render(c, rng, G.EXACT))
    s = GA.render_parts(short, rng, style=G.EXACT)
    return {"parts": parts, "table": table, "s": s, "plain": plain}


def cond_factory(rng):
    pools = G.Pools(rc=["1", "2", "3", "4"], hint=["501", "502"], fc=["901", "902", "903"])

    def cond():
        return G.gen_valid(rng, rng.randint(0, 2), pools, max_leaves=6, invalid_pred=logic.structurally_invalid)

    return cond


async def run(ctx):
    rng = ctx.rng
    E.install()
    # every spelling in every letter case, with and without a condition expression
    idx = 0
    for ind, variants in GA.ALL_SPELLINGS.items():
        for sp in variants:
            idx += 1
            if not ctx.mine(idx):
                continue
            for cond in (None, ["rc", "1"], ["and", ["rc", "1"], ["then", ["rc", "2"], ["fc", "901"]]]):
                case = build([[ind, cond]], rng, spellings=[sp])
                await check_case(ctx, case)
                ctx.count("spelling_variants")
            if ind in GA.MODAL:
                # as a later part and as trailing bare mark
                case = build([["MUSS", ["rc", "1"]], [ind, ["rc", "2"]], [ind, None]], rng, spellings=[GA.spelling("MUSS", rng), sp, sp])
                await check_case(ctx, case)
                ctx.count("spelling_variants")
    cond = cond_factory(rng)
    for i in range(ctx.budget(900, 45_000)):
        parts = GA.gen_parts(rng, cond, max_parts=4)
        case = build(parts, rng)
        await check_case(ctx, case)
        if i % 120 == 0:
            ctx.sample({"s": case["s"], "parts": [[a, (t or "").strip()] for a, t in zip(case["spellings"], case["conds"])]}, cls="ahb")
        if i % 5 == 0:
            pcase = gen_package_case(rng, lambda: G.gen_valid(rng, rng.randint(1, 3), G.Pools(rc=["1", "2", "3", "4"], hint=["501", "502"], fc=["901", "902", "903"]), max_leaves=7, invalid_pred=logic.structurally_invalid))
            if pcase["table"]:
                await check_with_packages(ctx, pcase)


async def replay(ctx, phase, case):
    E.install()
    if phase == "packages":
        await check_with_packages(ctx, case)
    else:
        await check_case(ctx, case)
