"""C16 - an invalid expression makes one node optional and never aborts validation (fault injection)."""

import random
from itertools import combinations

from vf import evaluators as E
from vf import sched
from vf import treebuild as TB
from vf.checks.c13 import POOLS, parts_factory
from vf.gen import expr as G
from vf.gen import tree as T
from vf.monitors import describe
from vf.ref import logic


def invalid_expression(rng):
    """a well-formed but structurally invalid AHB expression (one or two parts, at least one invalid)"""
    for _ in range(200):
        t = G.gen_eval(rng, rng.randint(1, 3), POOLS, max_leaves=6)
        if logic.structurally_invalid(t):
            break
    else:
        t = ["or", ["rc", "1"], ["hint", "501"]]
    parts = [[rng.choice(["MUSS", "SOLL", "KANN", "X"]), t]]
    if parts[0][0] != "X" and rng.random() < 0.3:
        valid = G.gen_valid(rng, 1, POOLS, max_leaves=3, invalid_pred=logic.structurally_invalid)
        parts = [[rng.choice(["MUSS", "KANN"]), valid]] + parts if rng.random() < 0.5 else parts + [[rng.choice(["MUSS", "KANN"]), valid]]
    return T.make_expression(parts, rng)


def holders(spec):
    """fault sites: (id, holder) for groups, segments, free-text elements and value-pool entries of pools with > 1 entry"""
    out = []
    for node in T.walk(spec):
        if "x" in node:
            out.append((node["d"], node))
        if node["k"] == "P" and len(node["entries"]) > 1:
            for e in node["entries"]:
                out.append((node["d"] + "/" + e["q"], e))
    return out


def plant(spec, faults):
    """faults: {site id: expression}; returns a copy of spec with the expressions at the fault sites replaced"""
    def fn(holder, x):
        for site, (_h, expr) in faults.items():
            if _h is holder:
                return expr
        return x

    return T.map_expressions(spec, fn)


async def check_injection(ctx, case):
    """case: {"spec", "asg", "soll", "sites": [site ids], "exprs": {site: expression}, "schedule_seed"}"""
    spec, asg, soll = case["spec"], case["asg"], case["soll"]
    ctx.set_case("injection", case)
    site_map = dict(holders(spec))
    faults = {site: (site_map[site], case["exprs"][site]) for site in case["sites"]}
    kann = {site: (site_map[site], T.kann_expression()) for site in case["sites"]}
    faulty_spec = plant(spec, faults)
    kann_spec = plant(spec, kann)
    rng = random.Random(case["schedule_seed"])
    world = E.World("c16", rc=asg, fc={k: True for k in POOLS.fc}, pkg=case.get("pkg", {}))
    if case.get("shared_lookups"):
        # the user's requirement evaluator shares one pending look-up per key between all nodes of the run: a failure at one node must not
        # take the others down with it
        world.shared_lookups = True
        ctx.count("injections_with_shared_lookups")
    sc = sched.Sched(sched.RandomChooser(rng))
    out = await TB.validate(faulty_spec, world, soll, scheduler=sc)
    ctx.evaluation()
    ctx.count("injections")
    ctx.count("faults_planted", len(faults))
    for site in faults:
        ctx.count("fault_at:" + ("E" if "/" in site else site[0]))
    what = f"validation with invalid expressions at {sorted((s, T.expr_string(e[1])) for s, e in faults.items())} under {asg}, soll_is_required={soll}"
    if out[0] != "ok":
        ctx.violation("validation-aborted", f"{what} {describe(out)[:300]}")
        return
    ref_out = await TB.validate(kann_spec, E.World("c16", rc=asg, fc={k: True for k in POOLS.fc}, pkg=case.get("pkg", {})), soll, scheduler=None)
    ctx.evaluation()
    if ref_out[0] != "ok":
        ctx.violation(f"validation-raises-{type(ref_out[1]).__name__}", f"the AHB with 'Kann' in place of the invalid expressions {describe(ref_out)[:300]}")
        return
    got = {g[0]: g for g in TB.summarise(out[1])}
    ref = {g[0]: g for g in TB.summarise(ref_out[1])}
    order_got, order_ref = [r.discriminator for r in out[1]], [r.discriminator for r in ref_out[1]]
    if order_got != order_ref:
        ctx.violation("other-nodes-differ", f"{what}: reported nodes {order_got} differ from those of the 'Kann' variant {order_ref}")
        return
    faulty_nodes = {site for site in faults if "/" not in site}
    visited_faults = 0
    for disc, g in got.items():
        if disc in faulty_nodes:
            visited_faults += 1
            if not g[1].startswith("IS_OPTIONAL"):
                ctx.violation("faulty-node-not-optional", f"{what}: node {disc} carries an invalid expression but is reported {g[1]}")
                return
            if not g[5]:
                ctx.violation("faulty-node-without-reason", f"{what}: node {disc} carries an invalid expression but its result has no hint giving the reason")
                return
        elif g != ref[disc]:
            ctx.violation("other-nodes-differ", f"{what}: node {disc} is {g}, in the AHB with 'Kann' in place of the invalid expressions it is {ref[disc]}")
            return
    for site in faults:
        if "/" in site:
            pool, qualifier = site.split("/")
            if pool in got:
                visited_faults += 1
                if got[pool][1] != "IS_FORBIDDEN" and qualifier not in (got[pool][2] or []):
                    ctx.violation("invalid-pool-entry-not-selectable", f"{what}: the pool entry {qualifier} carries an invalid expression and must be treated as selectable; offered: {got[pool][2]}")
                    return
    ctx.count("faults_visited", visited_faults)
    if visited_faults:
        ctx.nontrivial([faulty_spec, sorted(asg.items()), soll])


async def run(ctx):
    rng = ctx.rng
    E.install()
    for i in range(ctx.budget(90, 9_000)):
        gen = T.TreeGen(rng, parts_factory(rng), max_depth=2 if ctx.quick else rng.choice([2, 3]), max_branch=3)
        spec = gen.tree()
        pkg = T.abbreviate_spec(spec, rng) if rng.random() < 0.3 else {}
        asg = {k: rng.choice("FFU") for k in POOLS.rc}  # no UNKNOWN here: the documented NotImplementedError is C13's business
        soll = rng.random() < 0.5
        sites = [s for s, _h in holders(spec)]
        if not sites:
            continue
        exprs = {s: invalid_expression(rng) for s in sites}
        ctx.count("trees")
        # fault subsets: all singles and pairs for small trees, sampled subsets otherwise
        if len(sites) <= 8:
            subsets = [[s] for s in sites] + [list(p) for p in combinations(sites, 2)]
            if ctx.quick and len(subsets) > 14:
                subsets = rng.sample(subsets, 14)
            ctx.count("trees_with_all_singles_and_pairs", 0 if (ctx.quick and len(sites) > 4) else 1)
        else:
            subsets = [[s] for s in rng.sample(sites, 6)] + [rng.sample(sites, rng.randint(2, min(6, len(sites)))) for _ in range(6 if ctx.quick else 14)]
        for subset in subsets:
            case = {"spec": spec, "asg": asg, "soll": soll, "sites": subset, "exprs": {s: exprs[s] for s in subset}, "schedule_seed": rng.randrange(1 << 30), "shared_lookups": rng.random() < 0.35, "pkg": pkg}
            await check_injection(ctx, case)
        if i % 30 == 0:
            ctx.sample({"sites": sites[:10], "invalid_expressions": [T.expr_string(exprs[s]) for s in sites[:4]]}, cls="injection")


async def replay(ctx, phase, case):
    E.install()
    await check_injection(ctx, case)
