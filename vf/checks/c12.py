"""C12 - results do not depend on the completion order of asynchronous evaluators; concurrent evaluations see only their own data."""

import asyncio
import re
import sys
from itertools import product

from vf import evaluators as E
from vf import sched
from vf.canon import canon
from vf.gen import ahb as GA
from vf.gen import expr as G
from vf.monitors import PairingMonitor, describe
from vf.ref import logic

from ahbicht.content_evaluation import is_valid_expression
from ahbicht.expressions import InvalidExpressionError
from ahbicht.content_evaluation.fc_evaluators import text_to_be_evaluated_by_format_constraint
from ahbicht.expressions.ahb_expression_evaluation import evaluate_ahb_expression_tree
from ahbicht.expressions.expression_resolver import parse_expression_including_unresolved_subexpressions

_PROCESS_RECURSION_LIMIT = sys.getrecursionlimit()
STATES = "FUK"
EXACT = G.Style(p_redundant=0.0, flat_runs=0.0)  # every same-operator child is bracketed: the parse is exactly the generator's AST
PKG_NAMES = ["1P", "2P", "3P"]


def table_for(keys, offset=0):
    """neighbouring keys get different values, so that a mispairing cannot hide behind coinciding values"""
    return {k: STATES[(i + offset) % 3] for i, k in enumerate(sorted(keys, key=int))}


def abbreviate(ast, rng, max_packages=3, names=PKG_NAMES):
    return G.abbreviate(ast, rng, names, max_packages, EXACT)


def summarise(outcome):
    if outcome[0] == "ok":
        return "ok:" + repr(outcome[1])
    return "exc:" + type(outcome[1]).__name__


async def pipeline(s, world):
    E.set_world(world)
    text_to_be_evaluated_by_format_constraint.set("text-" + world.id)
    tree = await parse_expression_including_unresolved_subexpressions(s, resolve_packages=True)
    result = await evaluate_ahb_expression_tree(tree)
    return canon(tree), result


def make_world(case, wid="w", offset=0):
    return E.World(
        wid,
        rc=table_for(case["rc_keys"], offset),
        fc={k: (i + offset) % 2 == 0 for i, k in enumerate(sorted(case["fc_keys"], key=int))},
        fc_msg={k: f"E{k}" for k in case["fc_keys"]},
        pkg=case["table"],
    )


async def check_orders(ctx, case):
    """case: {"s", "table", "rc_keys", "fc_keys", "sync": [labels completing synchronously]}"""
    s = case["s"]
    rng = ctx.case_rng(case)
    ctx.set_case("orders", case)
    ctx.count("expressions")
    if s.count("[9P") >= 2:
        ctx.count("expressions_with_a_repeated_package")
    baseline = await sched.run_under(None, lambda: pipeline(s, make_world(case)))
    ctx.evaluation()
    if baseline[0] != "ok":
        if not isinstance(baseline[1], InvalidExpressionError):  # (subclasses of it are as good: an invalid expression is refused)
            ctx.violation(f"baseline-raises-{type(baseline[1]).__name__}", f"{s!r} (nothing yields) {describe(baseline)[:300]}")
        return
    base = summarise(baseline)
    if case.get("table") and case.get("plain"):
        # pairing of package occurrences, independent of the code's own baseline: the expression in which every package is written out
        # (same AST, fully bracketed) must evaluate to the same result
        plain = await sched.run_under(None, lambda: pipeline(case["plain"], make_world(case)))
        ctx.evaluation()
        ctx.count("package_pairing_comparisons")
        if plain[0] == "ok" and repr(plain[1][1]) != repr(baseline[1][1]):
            ctx.violation("pairing-packages", f"{s!r} with packages {case['table']} evaluates to {baseline[1][1]!r:.300}; with every package written out ({case['plain']!r}) the result is {plain[1][1]!r:.300}")
            return
    orders = set()
    runs = 0
    # how many awaitables does one run park? decide between complete enumeration and sampling on a probe run
    probe = sched.Sched(sched.FifoChooser())
    pout = await sched.run_under(probe, lambda: pipeline(s, make_world(case)))
    total = probe.registered
    results = [(probe, pout)]
    if total >= 2:
        ctx.count("runs_with_2plus_parked_awaitables")
    if 2 <= total <= (5 if ctx.quick else 6):
        complete = False
        async for sc, out, complete in sched.explore_all(lambda: pipeline(s, make_world(case)), max_runs=150 if ctx.quick else 800):
            results.append((sc, out))
        if complete:
            ctx.count("exhaustively_enumerated_expressions")
    else:
        lifo = sched.Sched(sched.LifoChooser())
        results.append((lifo, await sched.run_under(lifo, lambda: pipeline(s, make_world(case)))))
        for _ in range(8 if ctx.quick else 25):
            sync = frozenset()
            sc = sched.Sched(sched.RandomChooser(rng), sync_labels=sync)
            results.append((sc, await sched.run_under(sc, lambda: pipeline(s, make_world(case)))))
    for sc, out in results:
        runs += 1
        ctx.evaluation()
        order = tuple(map(str, sc.order))
        orders.add(order)
        if sc.max_parked >= 2:
            ctx.count("runs_with_concurrently_parked_awaitables")
        got = summarise(out)
        if got != base:
            ctx.violation("order-dependent-result", f"{s!r}: with release order {list(order)[:20]} the result is {got[:400]}; when nothing yields it is {base[:400]}", case=dict(case, order=list(order)))
            return
    ctx.count("runs", runs)
    ctx.count("distinct_release_orders", len(orders))
    if len(orders) >= 2:
        ctx.nontrivial([s, sorted(case["table"].items())])


async def check_isolation(ctx, case):
    """K concurrent top-level evaluations, each with its own data in context-local storage"""
    rng = ctx.case_rng(case)
    ctx.set_case("isolation", case)
    k = case["k"]
    worlds = [make_world(case, wid=f"task{i}", offset=i) for i in range(k)]
    baselines = []
    for w in worlds:
        fresh = make_world(case, wid=w.id, offset=worlds.index(w))
        baselines.append(summarise(await sched.run_under(None, lambda fresh=fresh: pipeline(case["s"], fresh))))

    async def all_tasks():
        tasks = [asyncio.ensure_future(pipeline(case["s"], w)) for w in worlds]  # every task runs in its own copy of the context
        return await asyncio.gather(*tasks, return_exceptions=True)

    sc = sched.Sched(sched.RandomChooser(rng))
    out = await sched.run_under(sc, all_tasks)
    ctx.evaluation(k)
    ctx.count("isolation_runs")
    ctx.count("concurrent_evaluations", k)
    if out[0] != "ok":
        ctx.violation(f"isolation-raises-{type(out[1]).__name__}", f"{k} concurrent evaluations of {case['s']!r} {describe(out)[:300]}")
        return
    for i, (res, base) in enumerate(zip(out[1], baselines)):
        got = ("exc:" + type(res).__name__) if isinstance(res, BaseException) else "ok:" + repr(res)
        if got != base:
            ctx.violation("context-leak", f"{k} concurrent evaluations of {case['s']!r}: task{i} got {got[:300]}, evaluated alone it gets {base[:300]}")
            return
    for w in worlds:
        for ev in w.log:
            ctx.count("isolation_events")
            if ev[0] == "rc" and ev[3] != w.id:
                ctx.violation("context-leak", f"requirement evaluator of {w.id} ran with the context of {ev[3]} (key {ev[1]})")
                return
    if sc.max_parked >= 2:
        ctx.nontrivial(["isolation", case["s"], k])


def deep_tree(levels: int, keys):
    """the tree of 'Muss [k1] U [k2] U ...' with `levels` nested and-compositions, built by hand (as it may come out of the JSON schema)"""
    from lark import Token, Tree

    def cond(k):
        return Tree(Token("RULE", "condition"), [Token("CONDITION_KEY", k)])

    node = cond(keys[0])
    for i in range(levels):
        node = Tree("and_composition", [node, cond(keys[(i + 1) % len(keys)])])
    return Tree(Token("RULE", "ahb_expression"), [Tree("single_requirement_indicator_expression", [Token("MODAL_MARK", "Muss"), node])])


async def check_deep_tree_isolation(ctx, case):
    """a very deep tree evaluated next to an ordinary evaluation that is pending at the same time: whatever the deep evaluation ends
    with on its own (a result, or RecursionError if the interpreter's limit does not suffice), it ends with the same when it has
    company - under every completion order (interpreter-wide settings are shared state between concurrent evaluations)"""
    ctx.set_case("deep-tree-isolation", case)
    rng = ctx.case_rng(case)
    keys = ["1", "3"]
    rc = {"1": "F", "2": "F", "3": "F", "4": "U"}

    async def deep(world):
        E.set_world(world)
        return await evaluate_ahb_expression_tree(deep_tree(case["levels"], keys))

    async def ordinary(world):
        E.set_world(world)
        tree = await parse_expression_including_unresolved_subexpressions(case["s"])
        return await evaluate_ahb_expression_tree(tree)

    # every experiment starts from the interpreter settings the process had when the check started (independent experiments)
    sys.setrecursionlimit(_PROCESS_RECURSION_LIMIT)
    alone = summarise(await sched.run_under(None, lambda: deep(E.World("deep", rc=rc))))
    for chooser in (sched.FifoChooser(), sched.LifoChooser(), sched.RandomChooser(rng), sched.RandomChooser(rng)):
        for first in ("ordinary", "deep"):
            sys.setrecursionlimit(_PROCESS_RECURSION_LIMIT)
            async def both(first=first):
                order = [deep(E.World("deep", rc=rc)), ordinary(E.World("ordinary", rc=rc))]
                if first == "ordinary":
                    order.reverse()
                tasks = [asyncio.ensure_future(c) for c in order]
                res = await asyncio.gather(*tasks, return_exceptions=True)
                return res[0] if first == "deep" else res[1]

            sc = sched.Sched(chooser)
            out = await sched.run_under(sc, both)
            ctx.evaluation(2)
            ctx.count("deep_tree_isolation_runs")
            got = ("exc:" + type(out[1]).__name__) if out[0] != "ok" else (("exc:" + type(out[1]).__name__) if isinstance(out[1], BaseException) else "ok:" + repr(out[1]))
            if got != alone:
                ctx.violation("context-leak", f"a tree of {case['levels']} nested and-compositions evaluates to {alone[:200]} on its own and to {got[:200]} while an evaluation of {case['s']!r} is pending beside it ({first} started first, release order {[str(x) for x in sc.order][:8]})")
                return
    ctx.nontrivial(["deep-tree", case["levels"], case["s"]])


async def check_package_tickets(ctx, case):
    """a package resolver whose answers are all different (one numbered expression per look-up): every answer it produced must be in the
    resolved tree exactly once - none lost, none used twice - under every completion order"""
    s = case["s"]
    rng = ctx.case_rng(case)
    ctx.set_case("package-tickets", case)

    def run_once(chooser):
        world = E.World("tickets")
        world.pkg_tickets = []

        async def go():
            E.set_world(world)
            return await parse_expression_including_unresolved_subexpressions(s, resolve_packages=True)

        return world, sched.Sched(chooser), go

    for chooser in (None, sched.FifoChooser(), sched.LifoChooser(), sched.RandomChooser(rng), sched.RandomChooser(rng)):
        world, sc, go = run_once(chooser)
        out = await sched.run_under(sc if chooser is not None else None, go)
        ctx.evaluation()
        ctx.count("package_ticket_runs")
        if out[0] != "ok":
            ctx.violation(f"resolve-raises-{type(out[1]).__name__}", f"resolving {s!r} with a resolver that answers every look-up differently {describe(out)[:300]}")
            return
        key_of = {t: k for k, t in world.pkg_tickets}
        found = [int(tok.value) for tok in out[1].scan_values(lambda v: hasattr(v, "type") and v.type == "CONDITION_KEY" and str(v).isdigit() and int(str(v)) >= 7001)]
        what = f"{s!r}: the package resolver was asked {[(k, t) for k, t in world.pkg_tickets]} (key, answer [n]), the resolved tree contains the answers {sorted(found)} (release order {[str(x) for x in sc.order][:10]})"
        foreign = [t for t in found if t not in key_of]
        if foreign:
            ctx.violation("pairing-packages", f"{what}: {foreign} were never produced")
            return
        for key, written in case["per_key"].items():
            produced = [t for k, t in world.pkg_tickets if k == key]
            placed = [t for t in found if key_of[t] == key]
            # an implementation may ask once per occurrence or once per key (memo): then one answer serves all occurrences of that key
            if len(placed) != written:
                ctx.violation("pairing-packages", f"{what}: package {key} is written {written} time(s), {len(placed)} answers produced for it are in the tree")
                return
            lost = [t for t in produced if t not in placed]
            if lost:
                ctx.violation("pairing-packages", f"{what}: the answers {lost} produced for package {key} were lost (another answer was used in their place)")
                return
        if len(world.pkg_tickets) == case["occurrences"]:
            ctx.count("package_ticket_runs_with_one_lookup_per_occurrence")
    ctx.nontrivial(["tickets", s])


def gen_ticket_case(rng):
    keys = rng.sample(["1P", "2P", "3P", "44P"], rng.randint(1, 3))
    atoms = []
    for _ in range(rng.randint(2, 6)):
        if rng.random() < 0.75:
            k = rng.choice(keys)
            atoms.append("[%s%s]" % (k, rng.choice(["", "", "0..1", "2..10"])))
        else:
            atoms.append("[%s]" % rng.choice(["1", "2", "501", "901"]))
    toks = []
    depth = 0
    for i, a in enumerate(atoms):
        if i:
            toks.append(rng.choice(["U", "O", "X", " "]))
        if rng.random() < 0.3 and i < len(atoms) - 1:
            toks.append("(")
            depth += 1
        toks.append(a)
        if depth and rng.random() < 0.4:
            toks.append(")")
            depth -= 1
    toks += [")"] * depth
    s = "".join(toks)
    if rng.random() < 0.4:
        s = rng.choice(["Muss ", "X", "Kann"]) + s
    per_key = {}
    for a in atoms:
        if "P" in a:
            k = a[1 : a.index("P") + 1]
            per_key[k] = per_key.get(k, 0) + 1
    return {"s": s, "occurrences": sum(per_key.values()), "per_key": per_key}


async def check_isolation_shipped(ctx, case):
    """K concurrent evaluations through the library's own ContentEvaluationResult based evaluators (ONE set of instances for the whole
    process); every task has its own content evaluation result in context-local evaluatable data"""
    from ahbicht.expressions.hints_provider import HintsProvider  # noqa: F401  pylint:disable=unused-import

    ctx.set_case("isolation-shipped", case)
    k = case["k"]
    s = case["s"]
    hints = {h: f"Hinweis {h}" for h in ("501", "502", "503")}
    cers = []
    for i in range(k):
        cers.append(
            E.make_cer(
                table_for(case["rc_keys"], i),
                {key: (j + i) % 2 == 0 for j, key in enumerate(sorted(case["fc_keys"], key=int))},
                hints,
                fc_msg={key: f"E{key}" for key in case["fc_keys"]},
                packages={p: v for p, v in case["table"].items() if v is not None},
            )
        )

    async def one(cer):
        E.set_cer(cer)
        text_to_be_evaluated_by_format_constraint.set("text")
        tree = await parse_expression_including_unresolved_subexpressions(s, resolve_packages=True)
        return await evaluate_ahb_expression_tree(tree)

    E.install_cer_based()
    try:
        alone = []
        for cer in cers:
            alone.append(summarise(await sched.run_under(None, lambda cer=cer: one(cer))))

        async def all_tasks():
            tasks = [asyncio.ensure_future(one(cer)) for cer in cers]
            return await asyncio.gather(*tasks, return_exceptions=True)

        out = await sched.run_under(None, all_tasks)
    finally:
        E.install()
    ctx.evaluation(k)
    ctx.count("isolation_runs_with_shipped_evaluators")
    if out[0] != "ok":
        ctx.violation(f"isolation-raises-{type(out[1]).__name__}", f"{k} concurrent evaluations of {s!r} with the ContentEvaluationResult based evaluators {describe(out)[:300]}")
        return
    for i, (res, base) in enumerate(zip(out[1], alone)):
        got = ("exc:" + type(res).__name__) if isinstance(res, BaseException) else "ok:" + repr(res)
        if got != base:
            ctx.violation("context-leak", f"{k} concurrent evaluations of {s!r} with the ContentEvaluationResult based evaluators (each task with its own result in context-local data): task{i} got {got[:300]}, evaluated alone it gets {base[:300]}")
            return
    if len(set(alone)) >= 2:
        ctx.count("isolation_runs_with_shipped_evaluators_and_different_outcomes")


async def check_failure_isolation(ctx, case):
    """K concurrent evaluations whose requirement evaluators await look-ups SHARED between all of them (one pending future per key, as a
    cache in front of a backend hands out); one of the evaluations fails (a structurally invalid modal-mark part beside a valid one).
    The failure is that evaluation's own business: every other evaluation must end like it does when nothing yields."""
    rng = ctx.case_rng(case)
    ctx.set_case("failure-isolation", case)
    exprs = [case["bad"]] + list(case["good"])
    table = table_for(case["rc_keys"])
    fcs = {k: i % 2 == 0 for i, k in enumerate(case["fc_keys"])}

    def worlds():
        common = {}
        out = []
        for i in range(len(exprs)):
            w = E.World(f"task{i}", rc=dict(table), fc=dict(fcs), fc_msg={k: f"E{k}" for k in fcs})
            w.shared_lookups = True
            w.shared = common
            out.append(w)
        return out

    baselines = []
    first_outcome = None
    for i, s in enumerate(exprs):
        w = E.World(f"task{i}", rc=dict(table), fc=dict(fcs), fc_msg={k: f"E{k}" for k in fcs})
        outcome = await sched.run_under(None, lambda s=s, w=w: pipeline(s, w))
        first_outcome = first_outcome or outcome
        baselines.append(summarise(outcome))
    if not (first_outcome[0] == "exc" and isinstance(first_outcome[1], InvalidExpressionError)):
        ctx.count("failure_isolation_skipped")
        return
    for chooser in (sched.FifoChooser(), sched.LifoChooser(), sched.RandomChooser(rng), sched.RandomChooser(rng), sched.RandomChooser(rng)):
        ws = worlds()

        async def all_tasks(ws=ws):
            tasks = [asyncio.ensure_future(pipeline(s, w)) for s, w in zip(exprs, ws)]
            return await asyncio.gather(*tasks, return_exceptions=True)

        sc = sched.Sched(chooser)
        out = await sched.run_under(sc, all_tasks)
        ctx.evaluation(len(exprs))
        ctx.count("failure_isolation_runs")
        if out[0] != "ok":
            ctx.violation(f"isolation-raises-{type(out[1]).__name__}", f"concurrent evaluations {exprs} {describe(out)[:300]}")
            return
        for i, (res, base) in enumerate(zip(out[1], baselines)):
            got = ("exc:" + type(res).__name__) if isinstance(res, BaseException) else "ok:" + repr(res)
            if got != base:
                ctx.violation("failure-leak", f"concurrent evaluations {exprs} sharing their pending look-ups, release order {[str(x) for x in sc.order][:12]}: evaluation {i} ({exprs[i]!r}) ends with {got[:300]}, on its own it ends with {base[:300]} (evaluation 0 fails with InvalidExpressionError, which is its own business)")
                return
        if sc.max_parked >= 2:
            ctx.nontrivial(["failure-isolation", exprs, [str(x) for x in sc.order]])


def gen_failure_case(rng):
    pools = G.Pools(rc=["1", "2", "3", "4", "6"], hint=["501", "502"], fc=["901", "902"])

    def valid():
        return G.gen_valid(rng, rng.randint(0, 2), pools, max_leaves=4, invalid_pred=logic.structurally_invalid)

    def invalid():
        for _ in range(200):
            t = G.gen_eval(rng, rng.randint(1, 2), pools, max_leaves=4)
            if logic.structurally_invalid(t) and G.keys_of(t, "rc"):
                return t
        return ["or", ["rc", "1"], ["hint", "501"]]

    n = rng.randint(2, 3)
    pos = rng.randrange(n)
    marks = ["MUSS", "SOLL", "KANN"]
    bad_parts = [[marks[i], invalid() if i == pos else valid()] for i in range(n)]
    good = []
    for _ in range(rng.randint(1, 3)):
        parts = GA.gen_parts(rng, valid, max_parts=2, p_bare=0.0, p_prefix=0.3)
        good.append(GA.render_parts(parts, rng, style=EXACT))
    return {"bad": GA.render_parts(bad_parts, rng, style=EXACT), "good": good, "rc_keys": list(pools.rc), "fc_keys": list(pools.fc)}


async def check_validity_product(ctx, case):
    """is_valid_expression: the evaluations it runs concurrently must see exactly the Cartesian product of assignments"""
    s = case["s"]
    ctx.set_case("validity-product", case)
    seen = []

    def setter(cer):
        world = E.World.from_cer(cer)
        seen.append(world)
        E.set_world(world)

    async def go():
        E.set_world(E.World("outer"))
        return await is_valid_expression(s, setter)

    sc = sched.Sched(sched.RandomChooser(ctx.case_rng(case)))
    out = await sched.run_under(sc, go)
    ctx.evaluation()
    ctx.count("validity_runs")
    if out[0] != "ok":
        ctx.violation(f"is-valid-raises-{type(out[1]).__name__}", f"is_valid_expression({s!r}) under yielding evaluators {describe(out)[:300]}")
        return
    if out[1] != (True, None):
        ctx.violation("order-dependent-result", f"is_valid_expression({s!r}) = {out[1]!r} under yielding evaluators; the expression is valid")
        return
    expected = set()
    for rc in product(STATES, repeat=len(case["rc_keys"])):
        for fc in product((True, False), repeat=len(case["fc_keys"])):
            expected.add((tuple(zip(sorted(case["rc_keys"]), rc)), tuple(zip(sorted(case["fc_keys"]), fc))))
    # what the evaluators actually saw, per evaluation (= per world): every event must carry the context of its own world, and every
    # world must be an element of the product, no two evaluations get the same element. NOT demanded: that every element of the product is evaluated, or that every key of an
    # evaluation is asked for (an implementation that decides validity structurally, stops early or evaluates lazily is as good)
    rc_only = {e[0] for e in expected}
    complete = set()
    handed_out = [w.id for w in seen]  # World.from_cer spells the whole content evaluation result out in the id
    if len(set(handed_out)) != len(handed_out):
        twice = next(i for i in handed_out if handed_out.count(i) > 1)
        ctx.violation("context-leak", f"is_valid_expression({s!r}): {handed_out.count(twice)} of the {len(handed_out)} evaluations it started were handed the SAME content evaluation result ({twice}); each evaluation stands for one element of the product and must see its own")
        return
    for w in seen:
        for ev in w.log:
            ctx.count("validity_events")
            if ev[0] == "rc" and ev[3] != w.id:
                ctx.violation("context-leak", f"is_valid_expression({s!r}): an evaluation for assignment {w.id} ran with the context of {ev[3]}")
                return
        # an evaluation asks for a key at most once per occurrence in the expression: more events in ONE world mean that several
        # evaluations ran on the data handed out for one of them (and the others' data were never looked at)
        for key in case["rc_keys"]:
            asked = sum(1 for ev in w.log if ev[0] == "rc" and ev[1] == key)
            written = len(re.findall(r"\[[ \t\f\r\n]*" + key + r"[ \t\f\r\n]*\]", s))
            if asked > written:
                ctx.violation("context-leak", f"is_valid_expression({s!r}): the requirement evaluator was asked for key {key} {asked} times with the data of ONE evaluation ({w.id}); the key is written {written} time(s) - several of the concurrent evaluations ran on the same evaluation's data")
                return
        own = tuple(sorted((k, v) for k, v in w.rc.items() if k in case["rc_keys"]))
        if own not in rc_only:
            ctx.violation("context-leak", f"is_valid_expression({s!r}): an evaluation ran for the assignment {own}, which is no element of the product over {case['rc_keys']}")
            return
        if {ev[1] for ev in w.log if ev[0] == "rc"} >= set(case["rc_keys"]):
            complete.add(own)
    ctx.count("validity_assignments_fully_evaluated", len(complete))
    if complete == rc_only:
        ctx.count("validity_runs_covering_the_whole_product")
    if sc.max_parked >= 2:
        ctx.nontrivial(["validity", s])
        ctx.count("validity_runs_with_concurrency")


async def check_direct_sites(ctx, case):
    """the three public gather sites called directly (as user code may): every key is paired with its own value under every completion order;
    evaluate_conditions also with per-key evaluation contexts for some of the keys"""
    from ahbicht.content_evaluation.evaluationdatatypes import EvaluationContext

    rng = ctx.case_rng(case)
    ctx.set_case("direct-sites", case)
    tlp = E.install()
    rc_keys, fc_keys, hint_keys = case["rc_keys"], case["fc_keys"], case["hint_keys"]
    contexts = {k: f"$.scope[{k}]" for k in rc_keys if rng.random() < 0.5}
    worlds = []

    def factory():
        world = E.World("direct", rc=table_for(rc_keys), fc={k: i % 2 == 0 for i, k in enumerate(fc_keys)}, fc_msg={k: f"E{k}" for k in fc_keys})
        worlds.append(world)

        async def go():
            E.set_world(world)
            text_to_be_evaluated_by_format_constraint.set("text-direct")
            a = await tlp.rc.evaluate_conditions(list(rc_keys), world.data(), {k: EvaluationContext(scope=scope) for k, scope in contexts.items()} if contexts else None)
            b = await tlp.fc.evaluate_format_constraints(list(fc_keys))
            c = await tlp.hints.get_hints(list(hint_keys))
            return sorted((k, str(v)) for k, v in a.items()), sorted((k, v.format_constraint_fulfilled, v.error_message) for k, v in b.items()), sorted((k, v.hint) for k, v in c.items())

        return go()

    baseline = await sched.run_under(None, factory)
    seen = set()
    total = len(rc_keys) + len(fc_keys) + len(hint_keys)
    if total <= 5:
        runs = []
        async for sc, out, _complete in sched.explore_all(factory, max_runs=150):
            runs.append((sc, out))
    else:
        runs = []
        for _ in range(8):
            sc = sched.Sched(sched.RandomChooser(rng))
            runs.append((sc, await sched.run_under(sc, factory)))
    for sc, out in runs:
        ctx.evaluation()
        ctx.count("direct_site_runs")
        seen.add(tuple(map(str, sc.order)))
        if out[0] != "ok" or baseline[0] != "ok" or out[1] != baseline[1]:
            ctx.violation("order-dependent-result", f"evaluate_conditions({rc_keys}, contexts for {sorted(contexts)}) / evaluate_format_constraints({fc_keys}) / get_hints({hint_keys}) with release order {[str(x) for x in sc.order][:12]}: {describe(out)[:300]}; when nothing yields: {describe(baseline)[:300]}")
            return
    ctx.count("direct_site_release_orders", len(seen))
    if contexts:
        ctx.count("direct_site_runs_with_contexts")
    # every evaluation method was handed the evaluation context given for ITS key (the evaluator's default context for the others)
    for world in worlds:
        for key, scope in world.contexts_seen:
            if rc_keys.count(key) > 1:
                continue  # both evaluations of the key share ONE context object, which the harness' evaluation method writes to
            ctx.count("contexts_handed_to_evaluation_methods")
            if scope != contexts.get(key):
                ctx.violation("pairing-evaluation-contexts", f"evaluate_conditions({rc_keys}, condition_keys_with_context={contexts}): the evaluation method of key {key} was handed a context with scope {scope!r}, expected {contexts.get(key)!r}")
                return


def gen_case(rng):
    pools = G.Pools(rc=["1", "2", "3", "4", "5", "6"], hint=["501", "502", "503"], fc=["901", "902", "903", "904"])

    def cond():
        ast = G.gen_valid(rng, rng.randint(1, 3), pools, max_leaves=rng.choice([3, 5, 8]), invalid_pred=logic.structurally_invalid)
        return ast

    table = {}
    parts = GA.gen_parts(rng, cond, max_parts=3, p_bare=0.0, p_prefix=0.2)
    # one package used at SEVERAL places (every occurrence is a look-up of its own, possibly still pending when the next one starts)
    repeated = None
    if rng.random() < 0.3:
        sub = G.gen_valid(rng, rng.randint(0, 1), pools, max_leaves=3, invalid_pred=logic.structurally_invalid)
        if G.has_rc(sub):
            repeated = sub
            table["9P"] = G.render(sub, rng, EXACT)
    new_parts, plain_parts = [], []
    for ind, c in parts:
        plain_c = c
        free = [n for n in PKG_NAMES if n not in table]
        if c is not None and rng.random() < 0.6 and free:
            c, t = abbreviate(c, rng, max_packages=2, names=free)
            table.update(t)
        if c is not None and repeated is not None and rng.random() < 0.8:
            op = rng.choice(["and", "or", "xor"]) if G.has_rc(plain_c) else "and"
            twice = rng.random() < 0.5
            c = [op, ["and", ["pkg", "9P", None], c], ["pkg", "9P", "0..1"]] if twice else [op, c, ["pkg", "9P", None]]
            plain_c = [op, ["and", repeated, plain_c], repeated] if twice else [op, plain_c, repeated]
        new_parts.append([ind, c])
        plain_parts.append([ind, plain_c])
    if repeated is not None and not any(leaf[0] == "pkg" and leaf[1] == "9P" for _i, c in new_parts if c is not None for leaf in G.leaves(c)):
        table.pop("9P", None)
    parts = plain_parts
    s = GA.render_parts(new_parts, rng, style=EXACT)
    plain = GA.render_parts(parts, rng, style=EXACT)
    rc_keys, fc_keys = set(), set()
    for _ind, c in parts:  # the un-abbreviated parts know all keys
        if c is not None:
            rc_keys.update(G.keys_of(c, "rc"))
            fc_keys.update(G.keys_of(c, "fc"))
    return {"s": s, "plain": plain, "table": table, "rc_keys": sorted(rc_keys, key=int), "fc_keys": sorted(fc_keys, key=int)}


async def run(ctx):
    rng = ctx.rng
    E.install()

    def on_violation(kind, message, extra):
        ctx.violation(kind, message, extra)

    with PairingMonitor(on_violation) as mon:
        for i in range(ctx.budget(600, 30_000)):
            case = gen_case(rng)
            await check_orders(ctx, case)
            if i % 60 == 0:
                ctx.sample({"s": case["s"], "packages": case["table"]}, cls="orders")
        for i in range(ctx.budget(150, 8_000)):
            case = gen_case(rng)
            case["k"] = rng.randint(2, 5)
            await check_isolation(ctx, case)
            await check_isolation_shipped(ctx, case)
        for i in range(ctx.budget(120, 6_000)):
            await check_failure_isolation(ctx, gen_failure_case(rng))
        for i in range(ctx.budget(150, 8_000)):
            await check_package_tickets(ctx, gen_ticket_case(rng))
        for i in range(ctx.budget(6, 60)):
            await check_deep_tree_isolation(ctx, {"levels": rng.choice([150, 300, 600, 900]), "s": rng.choice(["Muss [2]", "Muss [1] U [3] Kann [4]", "X [4] O [2]"])})
        for i in range(ctx.budget(100, 5_000)):
            for _ in range(50):
                case = gen_case(rng)
                if not case["table"] and len(case["rc_keys"]) + len(case["fc_keys"]) <= 4 and case["rc_keys"]:
                    break
            else:
                continue
            await check_validity_product(ctx, case)
        for i in range(ctx.budget(120, 6_000)):
            n_rc, n_fc, n_h = rng.randint(1, 5), rng.randint(0, 3), rng.randint(0, 3)
            case = {"rc_keys": rng.sample(E.RC_KEYS[:12], n_rc), "fc_keys": rng.sample(["901", "902", "903", "904", "950"], n_fc), "hint_keys": rng.sample(["501", "502", "503", "900"], n_h)}
            if rng.random() < 0.3 and case["rc_keys"]:
                case["rc_keys"].append(case["rc_keys"][0])  # a key asked for twice
            await check_direct_sites(ctx, case)
        for name, n in mon.calls.items():
            ctx.count("contract:" + name, n)
        for name, n in mon.multi.items():
            ctx.count("contract_multi:" + name, n)


async def replay(ctx, phase, case):
    E.install()

    def on_violation(kind, message, extra):
        ctx.violation(kind, message, extra)

    with PairingMonitor(on_violation):
        if phase == "orders":
            await check_orders(ctx, case)
        elif phase == "isolation":
            await check_isolation(ctx, case)
        elif phase == "deep-tree-isolation":
            await check_deep_tree_isolation(ctx, case)
        elif phase == "package-tickets":
            await check_package_tickets(ctx, case)
        elif phase == "isolation-shipped":
            await check_isolation_shipped(ctx, case)
        elif phase == "failure-isolation":
            await check_failure_isolation(ctx, case)
        elif phase == "direct-sites":
            await check_direct_sites(ctx, case)
        else:
            await check_validity_product(ctx, case)
