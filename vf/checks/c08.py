"""C08 - format-constraint evaluation is Boolean and explains every failure."""

from vf import evalhelp as H
from vf import evaluators as E
from vf import sched
from vf.gen import expr as G
from vf.monitors import capture, describe
from vf.ref import logic

from ahbicht.content_evaluation.fc_evaluators import text_to_be_evaluated_by_format_constraint
from ahbicht.expressions.condition_expression_parser import parse_condition_expression_to_tree
from ahbicht.expressions.format_constraint_expression_evaluation import evaluate_format_constraint_tree, format_constraint_evaluation
from ahbicht.models.condition_nodes import EvaluatedFormatConstraint


def fresh_table(fa, message_style, texts_on_fulfilled=False):
    """every unfulfilled single constraint carries a message; fulfilled ones carry none (what the shipped evaluators produce) or -
    texts_on_fulfilled - a remark of their own (the model allows it: a user evaluator saying "check digit matches", a result produced by
    another system that always fills the field)"""
    out = {}
    for k, v in fa.items():
        msg = f"OK: {k} looks fine" if texts_on_fulfilled and int(k) % 2 == 1 else None
        if not v:
            msg = {"plain": f"E{k}", "unicode": f"Formatprüfung {k} »fehlgeschlagen« ✗", "quotes": f"'{k}' \"oder\" 'und'"}[message_style]
        if texts_on_fulfilled and msg is not None and v and int(k) % 4 == 1:
            # ... or an object that is created pessimistically and corrected later (attributes of the model are assignable)
            out[k] = EvaluatedFormatConstraint(format_constraint_fulfilled=False, error_message=msg)
            out[k].format_constraint_fulfilled = True
        else:
            out[k] = EvaluatedFormatConstraint(format_constraint_fulfilled=v, error_message=msg)
    return out


async def check_expression(ctx, case):
    ast, s = case["ast"], case["s"]
    rng = ctx.case_rng(case)
    ctx.set_case("expression", case)
    out = capture(parse_condition_expression_to_tree, s)
    if out[0] != "ok":
        ctx.violation("wellformed-expression-not-parsed", f"parse_condition_expression_to_tree({s!r}) {describe(out)[:200]}")
        return
    tree = out[1]
    keys = G.keys_of(ast, "fc")
    ctx.count("expressions")
    ops = {n[0] for n in map(lambda p: G.get_at(ast, p), G.paths(ast)) if not G.is_leaf(n)}
    if len(ops) >= 2:
        ctx.nontrivial(s)
        ctx.count("expressions_mixing_operators")
    fas = case.get("assignments") or list(logic.bool_assignments(keys))
    for fa in fas:
        ctx.evaluation()
        wcase = dict(case, assignments=[fa])
        expected = logic.ast_bool(ast, fa)
        # the Boolean value does not depend on messages at all: unfulfilled constraints WITHOUT a message are legitimate input
        # (dictionary / content-evaluation-result based evaluators pass None through); only the message clause has the proviso
        bare = capture(evaluate_format_constraint_tree, tree, {k: EvaluatedFormatConstraint(format_constraint_fulfilled=v, error_message=None) for k, v in fa.items()})
        ctx.count("evaluations_without_messages")
        if bare[0] != "ok":
            ctx.violation(f"fc-evaluation-raises-{type(bare[1]).__name__}", f"evaluate_format_constraint_tree({s!r}, {fa}, no messages) {describe(bare)[:200]}", case=wcase)
            return
        if bare[1].format_constraint_fulfilled is not expected:
            ctx.violation("boolean-value", f"{s!r} under {fa} with message-less constraints: evaluate_format_constraint_tree gives {bare[1].format_constraint_fulfilled!r}, Boolean value is {expected}", case=wcase)
            return
        ev = capture(evaluate_format_constraint_tree, tree, fresh_table(fa, rng.choice(["plain", "unicode", "quotes"])))
        if ev[0] != "ok":
            ctx.violation(f"fc-evaluation-raises-{type(ev[1]).__name__}", f"evaluate_format_constraint_tree({s!r}, {fa}) {describe(ev)[:200]}", case=wcase)
            return
        res = ev[1]
        if res.format_constraint_fulfilled is not expected:
            ctx.violation("boolean-value", f"{s!r} under {fa}: evaluate_format_constraint_tree gives {res.format_constraint_fulfilled!r}, Boolean value is {expected}", case=wcase)
            return
        if (res.error_message is not None) != (not expected):
            ctx.violation("message-presence", f"{s!r} under {fa}: fulfilled={expected} but error_message={res.error_message!r} (a message must be present iff unfulfilled)", case=wcase)
            return
        ctx.count("unfulfilled_results" if not expected else "fulfilled_results")
        # the statement's proviso is about UNFULFILLED single constraints only: fulfilled ones may carry a text of their own
        ev2 = capture(evaluate_format_constraint_tree, tree, fresh_table(fa, "plain", texts_on_fulfilled=True))
        ctx.count("evaluations_with_texts_on_fulfilled_constraints")
        if ev2[0] != "ok":
            ctx.violation(f"fc-evaluation-raises-{type(ev2[1]).__name__}", f"evaluate_format_constraint_tree({s!r}, {fa}, fulfilled constraints carrying a text) {describe(ev2)[:200]}", case=wcase)
            return
        if ev2[1].format_constraint_fulfilled is not expected or (ev2[1].error_message is not None) != (not expected):
            ctx.violation("message-presence" if ev2[1].format_constraint_fulfilled is expected else "boolean-value", f"{s!r} under {fa}, fulfilled single constraints with odd keys carry the text 'OK: <key> looks fine': fulfilled={ev2[1].format_constraint_fulfilled!r} (Boolean value {expected}), error_message={ev2[1].error_message!r} (a message must be present iff the result is unfulfilled)", case=wcase)
            return
    # the async entry point through yielding evaluators; messages explicit or inserted by the base class
    for fa in (fas if len(fas) <= 4 else rng.sample(fas, 4)):
        ctx.evaluation()
        ctx.count("async_evaluations")
        wcase = case
        explicit = rng.random() < 0.5
        world = E.World("c08", fc=dict(fa), fc_msg={k: f"E{k}" for k in fa} if explicit else None)
        scheduler = sched.Sched(sched.RandomChooser(rng)) if rng.random() < 0.6 else None
        if scheduler is not None:
            ctx.count("async_evaluations_under_random_completion_order")
        aout = await H.async_format(s, world, text="some text", scheduler=scheduler)
        if aout[0] != "ok":
            ctx.violation(f"fc-evaluation-raises-{type(aout[1]).__name__}", f"format_constraint_evaluation({s!r}) under {fa} {describe(aout)[:200]}", case=wcase)
            continue
        expected = logic.ast_bool(ast, fa)
        if aout[1].format_constraints_fulfilled is not expected:
            ctx.violation("boolean-value", f"format_constraint_evaluation({s!r}) under {fa} = {aout[1].format_constraints_fulfilled!r}, Boolean value is {expected}", case=wcase)
        elif (aout[1].error_message is not None) != (not expected):
            ctx.violation("message-presence", f"format_constraint_evaluation({s!r}) under {fa} ({'explicit' if explicit else 'default'} messages): fulfilled={expected}, error_message={aout[1].error_message!r}", case=wcase)


async def check_shipped(ctx, case):
    """format_constraint_evaluation through the library's own dictionary / ContentEvaluationResult based evaluators; with and without messages"""
    ast, s = case["ast"], case["s"]
    ctx.set_case("shipped", case)
    keys = G.keys_of(ast, "fc")
    crng = ctx.case_rng(case)
    for _ in range(2):
        fa = {k: crng.random() < 0.5 for k in keys}
        with_messages = crng.random() < 0.5
        cer = E.make_cer({}, fa, {}, fc_msg={k: f"E{k}" for k in keys} if with_messages else None)
        expected = logic.ast_bool(ast, fa)
        for mode in ("hardcoded", "cer"):
            ctx.evaluation()
            ctx.count("evaluations_with_shipped_evaluators")
            out = await H.with_shipped_evaluators(mode, cer, lambda: format_constraint_evaluation(s))
            wcase = dict(case, assignments=[fa])
            if out[0] != "ok":
                ctx.violation(f"fc-evaluation-raises-{type(out[1]).__name__}", f"format_constraint_evaluation({s!r}) with the {mode} evaluators under {fa} {describe(out)[:300]}", case=wcase)
                return
            if out[1].format_constraints_fulfilled is not expected:
                ctx.violation("boolean-value", f"format_constraint_evaluation({s!r}) with the {mode} evaluators ({'with' if with_messages else 'without'} messages) under {fa} = {out[1].format_constraints_fulfilled!r}, Boolean value is {expected}", case=wcase)
                return
            if with_messages and (out[1].error_message is not None) != (not expected):
                ctx.violation("message-presence", f"format_constraint_evaluation({s!r}) with the {mode} evaluators under {fa}: fulfilled={expected}, error_message={out[1].error_message!r}", case=wcase)
                return


async def check_concurrent(ctx, case):
    """several format_constraint_evaluation calls for the SAME expression run concurrently, each with its own text in its own context;
    the evaluator's verdict is a keyed predicate of the text: every evaluation must get the Boolean value for ITS text"""
    import asyncio

    ast, s, texts = case["ast"], case["s"], case["texts"]
    ctx.set_case("concurrent", case)
    keys = G.keys_of(ast, "fc")
    world = E.World("c08", fc_mode="text")

    async def one(text):
        E.set_world(world)
        text_to_be_evaluated_by_format_constraint.set(text)
        return await format_constraint_evaluation(s)

    async def all_of_them():
        return await asyncio.gather(*[asyncio.ensure_future(one(t)) for t in texts], return_exceptions=True)

    sc = sched.Sched(sched.RandomChooser(ctx.case_rng(case)))
    out = await sched.run_under(sc, all_of_them)
    ctx.evaluation(len(texts))
    ctx.count("concurrent_evaluations", len(texts))
    if out[0] != "ok":
        ctx.violation(f"fc-evaluation-raises-{type(out[1]).__name__}", f"{len(texts)} concurrent format_constraint_evaluation({s!r}) {describe(out)[:200]}")
        return
    for text, res in zip(texts, out[1]):
        expected = logic.ast_bool(ast, {k: E.text_predicate(k, text) for k in keys})
        if isinstance(res, BaseException):
            ctx.violation(f"fc-evaluation-raises-{type(res).__name__}", f"format_constraint_evaluation({s!r}) for text {text!r} (one of {len(texts)} concurrent ones) raised {res!r:.200}")
            return
        if res.format_constraints_fulfilled is not expected:
            ctx.violation("boolean-value", f"format_constraint_evaluation({s!r}) for text {text!r}, running concurrently with evaluations for {[t for t in texts if t != text]}: {res.format_constraints_fulfilled!r}, Boolean value for this text is {expected}")
            return
        if res.error_message and any(repr(t) in res.error_message for t in texts if t != text and repr(t) not in repr(text)):
            ctx.violation("foreign-text-in-message", f"format_constraint_evaluation({s!r}) for text {text!r}: the error message talks about another evaluation's text: {res.error_message!r:.300}")
            return


async def run(ctx):
    rng = ctx.rng
    E.install()
    # an absent or empty expression counts as fulfilled
    for empty in (None, ""):
        ctx.set_case("empty", {"fce": empty})
        ctx.evaluation()
        aout = await H.async_format(empty, E.World("c08"), text="x")
        ctx.count("empty_expressions")
        if aout[0] != "ok" or aout[1].format_constraints_fulfilled is not True or aout[1].error_message is not None:
            ctx.violation("empty-expression", f"format_constraint_evaluation({empty!r}) {describe(aout)[:200]}; expected fulfilled without message")
    # ---- small scope, complete: EVERY U/O/X expression with up to 3 (thorough: 4) leaves over three keys, minimal brackets, all 2^n assignments
    idx = 0
    for n in range(1, (3 if ctx.quick else 4) + 1):
        for ast in G.enumerate_fc_asts(n):
            idx += 1
            if ctx.mine(idx):
                await check_expression(ctx, {"ast": ast, "s": G.render(ast, rng, G.Style(p_redundant=0.0, flat_runs=1.0 if idx % 2 else 0.0, spell=idx % 3, ws="", flatten_any=True))})
                ctx.count("small_scope_expressions")
    for i in range(ctx.budget(1800, 90_000)):
        depth = rng.choice([0, 1, 2, 2, 3, 3, 4])
        ast = G.gen_fc_only(rng, depth, max_leaves=10 if rng.random() < 0.9 else 16)
        # minimal brackets (precedence decides), flat runs: the documented precedence is part of the property
        style = G.Style(p_redundant=rng.choice([0.0, 0.0, 0.15]), flat_runs=rng.choice([0.0, 0.5, 1.0]), flatten_any=True)
        case = {"ast": ast, "s": G.render(ast, rng, style)}
        if len(G.keys_of(ast, "fc")) > 7:
            continue
        await check_expression(ctx, case)
        if i % 3 == 0:
            await check_shipped(ctx, case)
        if i % 4 == 1:
            await check_concurrent(ctx, dict(case, texts=[f"text-{i}-{j}" for j in range(rng.randint(2, 5))]))
        if i % 250 == 0:
            ctx.sample({"s": case["s"]}, cls="expression")


async def replay(ctx, phase, case):
    E.install()
    if phase == "empty":
        aout = await H.async_format(case["fce"], E.World("c08"), text="x")
        if aout[0] != "ok" or aout[1].format_constraints_fulfilled is not True or aout[1].error_message is not None:
            ctx.violation("empty-expression", f"format_constraint_evaluation({case['fce']!r}) {describe(aout)[:200]}", phase=phase, case=case)
    elif phase == "shipped":
        await check_shipped(ctx, case)
    elif phase == "concurrent":
        await check_concurrent(ctx, case)
    else:
        await check_expression(ctx, case)
