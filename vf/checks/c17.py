"""C17 - value pools offer exactly the admissible qualifiers and judge the entered input by them."""

import random

from vf import evaluators as E
from vf import sched
from vf import treebuild as TB
from vf.checks.c13 import POOLS
from vf.gen import ahb as GA
from vf.gen import expr as G
from vf.gen import tree as T
from vf.monitors import describe
from vf.ref import logic
from vf.ref import validation as RV

from ahbicht.models.validation_values import RequirementValidationValue
from ahbicht.validation.validation import validate_data_element_valuepool, validate_segment

PARENTS = {"IS_REQUIRED": RequirementValidationValue.IS_REQUIRED, "IS_OPTIONAL": RequirementValidationValue.IS_OPTIONAL, "IS_FORBIDDEN": RequirementValidationValue.IS_FORBIDDEN}


def entry_expression(rng, p_invalid):
    def cond():
        if rng.random() < p_invalid:
            for _ in range(100):
                t = G.gen_eval(rng, rng.randint(1, 2), POOLS, max_leaves=5)
                if logic.structurally_invalid(t):
                    return t
        return G.gen_valid(rng, rng.randint(0, 2), POOLS, max_leaves=5, invalid_pred=logic.structurally_invalid)

    r = rng.random()
    if r < 0.45:
        parts = [["X", cond()]]
    elif r < 0.55:
        parts = [[rng.choice(["X", "MUSS", "KANN"]), None]]
    else:
        parts = GA.gen_parts(rng, cond, max_parts=2, p_bare=0.0, p_prefix=0.3, prefix_ops=("X", "O", "U"))
    return T.make_expression(parts, rng)


def gen_pool(rng, n, p_invalid=0.08):
    d = f"P{rng.randrange(10 ** 6)}"
    entries = [{"q": f"{d}-E{i:02d}", "x": entry_expression(rng, p_invalid)} for i in range(n)]
    for e in entries:
        if rng.random() < 0.12:
            e["m"] = rng.choice(["", "", " ", "0"])  # the meaning is free text of the AHB; maus only demands a string
    if n >= 2 and rng.random() < 0.15:
        # the same qualifier listed twice with different expressions (maus' replace_value_pool with a many-to-one mapping produces such pools)
        i, j = sorted(rng.sample(range(n), 2))
        entries[j]["q"] = entries[i]["q"]
        if "m" in entries[i]:
            entries[j]["m"] = entries[i]["m"]
        else:
            entries[j].pop("m", None)
    return {"k": "P", "d": d, "entries": entries, "input": None}


def expected_for(pool, asg, parent):
    """(status pattern, offered list, format flag, hint expected?)"""
    if parent == "IS_FORBIDDEN":
        return "IS_FORBIDDEN", [], True, False
    offered = RV.ref_pool(pool["entries"], asg)
    if not offered:
        return "IS_FORBIDDEN", [], True, False
    if pool["input"] in offered:
        return "*_AND_FILLED", offered, True, False
    if pool["input"]:
        return "*_AND_EMPTY", offered, False, True
    return "*_AND_EMPTY", offered, True, False


async def check_pool(ctx, case):
    """case: {"pool", "asg", "parent", "via": "direct" | "segment", "schedule_seed"}"""
    pool, asg, parent, via = case["pool"], case["asg"], case["parent"], case["via"]
    ctx.set_case("pool", case)
    ctx.evaluation()
    ctx.count("pool_cases")
    ctx.count("parent:" + parent)
    status, offered, flag, hint = expected_for(pool, asg, parent)
    inp = pool["input"]
    if inp is None:
        kind_of_input = "absent"
    elif inp == "":
        kind_of_input = "empty"
    elif inp != inp.strip():
        kind_of_input = "blank-or-padded"
    elif inp in offered:
        kind_of_input = "offered"
    elif any(e["q"] == inp for e in pool["entries"]):
        kind_of_input = "pool-member-not-offered"
    elif inp in ", ".join(offered):
        kind_of_input = "fragment-of-offered"
    else:
        kind_of_input = "foreign"
    ctx.count("input:" + kind_of_input)
    ctx.count("offered_none" if not offered and parent != "IS_FORBIDDEN" else "offered_some")
    world = E.World("c17", rc=asg, fc={k: random.Random(case["schedule_seed"] + int(k)).random() < 0.5 for k in POOLS.fc})
    obj = TB.build_data_element(pool)
    rng = random.Random(case["schedule_seed"])
    if via == "direct":

        async def go():
            E.set_world(world)
            return await validate_data_element_valuepool(obj, PARENTS[parent])

        out = await sched.run_under(sched.Sched(sched.RandomChooser(rng)), go)
        result = out[1].validation_result if out[0] == "ok" else None
        disc = out[1].discriminator if out[0] == "ok" else None
    else:
        # through validate_segment: the parent status comes from the segment's own expression
        seg_x = {"IS_REQUIRED": {"parts": [["MUSS", "Muss", None, None]]}, "IS_OPTIONAL": {"parts": [["KANN", "Kann", None, None]]}, "IS_FORBIDDEN": {"parts": [["MUSS", "Muss", ["rc", "6"], "[6]"]]}}[parent]
        seg = {"k": "S", "d": "S-" + pool["d"], "x": seg_x, "des": [pool]}
        seg_world = E.World("c17", rc=dict(asg, **({"6": "U"} if parent == "IS_FORBIDDEN" else {})), fc={k: True for k in POOLS.fc})
        segobj = TB.build_segment(seg)

        async def go2():
            E.set_world(seg_world)
            return await validate_segment(segobj, None, True)

        out = await sched.run_under(sched.Sched(sched.RandomChooser(rng)), go2)
        if parent == "IS_FORBIDDEN":
            ctx.count("via_segment_forbidden")
            if out[0] == "ok" and len(out[1]) != 1:
                ctx.violation("reported-below-forbidden-segment", f"value pool {pool['d']} is reported although its segment is forbidden: {[r.discriminator for r in out[1]]}")
            elif out[0] != "ok":
                ctx.violation(f"validation-raises-{type(out[1]).__name__}", f"validate_segment with a forbidden segment {describe(out)[:200]}")
            return
        result = out[1][1].validation_result if out[0] == "ok" and len(out[1]) == 2 else None
        disc = out[1][1].discriminator if result is not None else None
    what = f"value pool {[(e['q'], T.expr_string(e['x'])) for e in pool['entries']]} with input {pool['input']!r}, parent {parent}, under {asg} ({via})"
    if out[0] != "ok" or result is None:
        ctx.violation(f"validation-raises-{type(out[1]).__name__}" if out[0] != "ok" else "value-pool-not-reported", f"{what}: {describe(out)[:300]}")
        return
    got_status = str(result.requirement_validation)
    got_offered = list((result.possible_values or {}).keys())
    if disc != pool["d"]:
        ctx.violation("value-pool-not-reported", f"{what}: result carries discriminator {disc!r}")
        return
    if got_offered != offered:
        ctx.violation("offered-values", f"{what}: offered {got_offered}, expected exactly {offered} (pool order)")
        return
    if not RV.status_matches(got_status, status):
        kind = "nothing-offered-not-forbidden" if status == "IS_FORBIDDEN" and parent != "IS_FORBIDDEN" else "status"
        ctx.violation(kind, f"{what}: reported {got_status}, expected {status}")
        return
    if result.format_validation_fulfilled is not flag:
        ctx.violation("unexpected-value-flag", f"{what}: format flag {result.format_validation_fulfilled!r}, expected {flag} ({'unexpected value must be flagged' if not flag else 'nothing to flag'})")
        return
    if hint and not result.hints:
        ctx.violation("unexpected-value-flag", f"{what}: the unexpected value is not explained in the hints")
        return
    # (the meanings attached to the offered qualifiers are passed through from the maus model; the property does not speak about them:
    #  counted, not demanded)
    if any("m" in e for e in pool["entries"]):
        ctx.count("pools_with_an_empty_or_odd_meaning")
    own = {e["q"]: e.get("m", "m-" + e["q"]) for e in pool["entries"]}
    if all(result.possible_values[q] == own[q] for q in got_offered):
        ctx.count("offered_with_their_own_meaning")
    if len(pool["entries"]) >= 2:
        ctx.nontrivial([pool, sorted(asg.items()), parent, via])


async def run(ctx):
    rng = ctx.rng
    E.install()
    for i in range(ctx.budget(500, 50_000)):
        n = rng.choice([1, 1, 2, 2, 3, 3, 4, 5, 6, 8])
        pool = gen_pool(rng, n)
        if len({e["q"] for e in pool["entries"]}) < len(pool["entries"]):
            ctx.count("pools_with_a_repeated_qualifier")
        # assignments: random, plus "everything unfulfilled" so that pools offering nothing occur
        for asg in ({k: rng.choice("FUK") for k in POOLS.rc}, {k: rng.choice("FU") for k in POOLS.rc}, {k: "U" for k in POOLS.rc}):
            offered = RV.ref_pool(pool["entries"], asg)
            inputs = [None, "", "ZZZ", pool["entries"][0]["q"], pool["entries"][-1]["q"]] + ([rng.choice(offered)] if offered else [])
            not_offered = [e["q"] for e in pool["entries"] if e["q"] not in offered]
            if not_offered:
                inputs.append(rng.choice(not_offered))
            if offered:
                # values that are no qualifier but occur INSIDE the (joined) list of offered qualifiers
                inputs += [offered[0][:-1], offered[-1][1:], offered[0][-2:], ", ", ","]
                # an offered qualifier with whitespace around it is another value (nobody said input is trimmed), as is blank input
                inputs += [" " + offered[0], offered[-1] + " ", offered[0] + "\n", " ", "\t"]
                if len(offered) >= 2:
                    inputs.append(offered[0] + ", " + offered[1])
            for inp in (inputs if not ctx.quick else rng.sample(inputs, 4)):
                for parent in ("IS_REQUIRED", "IS_OPTIONAL", "IS_FORBIDDEN"):
                    if parent == "IS_FORBIDDEN" and rng.random() < 0.6:
                        continue
                    case = {"pool": dict(pool, input=inp), "asg": asg, "parent": parent, "via": rng.choice(["direct", "direct", "segment"]), "schedule_seed": rng.randrange(1 << 30)}
                    await check_pool(ctx, case)
        if i % 150 == 0:
            ctx.sample({"pool": [(e["q"], T.expr_string(e["x"])) for e in pool["entries"]]}, cls="pool")


async def replay(ctx, phase, case):
    E.install()
    await check_pool(ctx, case)
