"""C11 - parsing is a pure function of the string, whatever happened before (cache hits, misses, evictions, callers editing returned trees)."""

import random

from lark import Token, Tree

from vf import evalhelp as H
from vf import evaluators as E
from vf import sched
from vf.canon import canon, show, tree_objects
from vf.gen import ahb as GA
from vf.gen import expr as G
from vf.monitors import capture, describe
from vf.ref import logic

from ahbicht.expressions.ahb_expression_parser import parse_ahb_expression_to_single_requirement_indicator_expressions
from ahbicht.expressions.condition_expression_parser import parse_condition_expression_to_tree
from ahbicht.expressions.expression_resolver import parse_expression_including_unresolved_subexpressions

PARSERS = {"cond": parse_condition_expression_to_tree, "ahb": parse_ahb_expression_to_single_requirement_indicator_expressions}
KEYWORD = {"cond": "condition_expression", "ahb": "ahb_expression"}  # the documented parameter names: callers may pass the string by keyword
CACHE_SIZE = 1024


def salt(seed: int) -> str:
    """whitespace that encodes the history's seed: every history works on strings no other history has touched,
    so histories are independent of each other (and replayable in a fresh process) although the caches are process wide"""
    bits = bin(seed % (1 << 20))[2:].zfill(20)
    return "".join(" " if b == "0" else "\t" for b in bits)


def make_pool(rng, seed):
    pool = []
    sfx = salt(seed)
    for _ in range(14):
        ast = G.gen_valid(rng, rng.randint(0, 3), max_leaves=8, invalid_pred=logic.structurally_invalid)
        pool.append(("cond", G.render(ast, rng) + sfx, ast))
    for _ in range(8):
        toks = G.gen_tokens(rng, max_items=rng.randint(1, 5), depth=2)
        pool.append(("cond", G.join_tokens(toks, rng) + sfx, None))
    for _ in range(10):
        parts = GA.gen_parts(rng, lambda: G.gen_eval(rng, rng.randint(0, 2), max_leaves=5), p_bare=0.0, p_trailing_bare=0.0)
        # every condition part carries the salt: the strings the resolver hands to the condition parser are private to this history, too
        texts = [rng.choice(GA.WS) + G.render(cond, rng) + sfx for _ind, cond in parts]
        pool.append(("ahb", "".join(GA.spelling(ind, rng) + text for (ind, _c), text in zip(parts, texts)), None, texts))
    # the condition parts of the AHB expressions as pool entries of their own (what the resolver parses must stay pristine as well)
    for entry in list(pool):
        if entry[0] == "ahb":
            for text in entry[3]:
                pool.append(("cond", text, None))
    return pool


def subtrees(tree):
    out = []

    def walk(t, depth):
        out.append((t, depth))
        for c in t.children:
            if isinstance(c, Tree):
                walk(c, depth + 1)

    walk(tree, 0)
    return out


def mutate(tree, rng):
    """an in-place edit of a previously returned tree: replace / remove / append / clear children at any depth, rename a node"""
    nodes = subtrees(tree)
    node, depth = rng.choice(nodes)
    op = rng.choice(["replace", "replace", "remove", "append", "append", "clear", "rename", "swap", "nested-append", "token-edit"])
    if op == "token-edit" and rng.random() < 0.3:
        # the label of a node is an object as well (a Token('RULE', name) for rules without alias)
        labelled = [(nd, d) for nd, d in nodes if isinstance(nd.data, Token)]
        if labelled:
            nd, d = rng.choice(labelled)
            if rng.random() < 0.5:
                nd.data.value = "edited"
            else:
                nd.data.type = "EDITED"
            return "label-edit", d
    if op == "token-edit":
        # the leaves are objects with writable attributes, too: .value / .type are what ahbicht reads
        tokens = [(nd, i, d) for nd, d in nodes for i, c in enumerate(nd.children) if isinstance(c, Token)]
        if tokens:
            nd, i, d = rng.choice(tokens)
            if rng.random() < 0.7:
                nd.children[i].value = rng.choice(["667", "Kann", "X", "99P"])
            else:
                nd.children[i].type = "JUNK"
            return "token-edit", d + 1
        op = "append"
    junk = Tree("junk", [Token("CONDITION_KEY", "666")])
    if op == "replace" and node.children:
        node.children[rng.randrange(len(node.children))] = junk if rng.random() < 0.5 else Token("CONDITION_KEY", "667")
    elif op == "remove" and node.children:
        del node.children[rng.randrange(len(node.children))]
    elif op == "append":
        node.children.append(junk)
    elif op == "clear":
        node.children.clear()
    elif op == "rename":
        node.data = "renamed"
    elif op == "swap" and len(node.children) >= 2:
        node.children.reverse()
    elif op == "nested-append":
        deep = max(nodes, key=lambda nd: nd[1])[0]
        deep.children.append(junk)
        return "nested-append", max(nd[1] for nd in nodes)
    else:
        node.children.insert(0, junk)
        op = "insert"
    return op, depth


async def run_history(ctx, case):
    """case: {"seed", "nops", "flood"}"""
    seed, nops, flood = case["seed"], case["nops"], case["flood"]
    rng = random.Random(f"c11/{seed}")
    ctx.set_case("history", case)
    pool = make_pool(rng, seed)
    pristine = {}
    returned = []  # (pool index, tree) - kept alive for the whole history
    log = []
    ctx.count("histories")
    ctx.nontrivial(["history", seed, nops, flood])

    def fail(kind, message):
        ctx.violation(kind, message + f" | last operations: {log[-6:]}")

    def parse(i, why):
        kind, s = pool[i][0], pool[i][1]
        ctx.evaluation()
        if rng.random() < 0.2:
            ctx.count("parse_calls_by_keyword")
            out = capture(PARSERS[kind], **{KEYWORD[kind]: s})
            log.append(f"parse#{i}({why}, string passed by keyword)")
        else:
            out = capture(PARSERS[kind], s)
            log.append(f"parse#{i}({why})")
        if out[0] != "ok":
            fail(f"parse-raises-{type(out[1]).__name__}", f"{kind} parser on pool string #{i} {s!r} {describe(out)[:200]}")
            return None
        c = canon(out[1])
        if i not in pristine:
            pristine[i] = c
            ctx.count("first_parses")
        elif c != pristine[i]:
            ctx.count("hits_compared")
            fail("history-dependent-parse", f"{kind} parser: {s!r} now gives {show(c)[:250]}, the first parse gave {show(pristine[i])[:250]}")
            return None
        else:
            ctx.count("hits_compared")
        # no Tree / children list may be shared with a tree handed out earlier: such an object is a channel between callers
        mine = tree_objects(out[1])
        for j, earlier in returned:
            if j == i and earlier is not out[1]:
                shared = [k for k in tree_objects(earlier) if k in mine]
                if shared:
                    ctx.count("shared_objects_seen")
                    break
        returned.append((i, out[1]))
        return out[1]

    cross_first = {}

    def cross_parse(i, why):
        """the string of pool entry i given to the OTHER parser: no string is well-formed for both grammars, so this is a SyntaxError, whatever
        the string's own parser has cached for it"""
        kind, s = pool[i][0], pool[i][1]
        other = "ahb" if kind == "cond" else "cond"
        ctx.evaluation()
        ctx.count("cross_parser_calls")
        out = capture(PARSERS[other], s)
        log.append(f"cross#{i}({why})")
        what = "tree" if out[0] == "ok" else ("SyntaxError" if isinstance(out[1], SyntaxError) else type(out[1]).__name__)  # subclasses are as good
        if i not in cross_first:
            cross_first[i] = what
        if what != cross_first[i] or what != "SyntaxError":
            fail("history-dependent-parse", f"{other} parser on the {kind} string {s!r} ({why}): {describe(out)[:200]}; given to this parser before its own parser had seen it: {cross_first[i]}")
            return False
        return True

    for i in range(0, len(pool), 2):
        if not cross_parse(i, "before-own-parser"):
            return

    resolved_first = {}

    async def resolve(i, why):
        """the combined resolver on an AHB pool string, time conditions kept (the returned tree embeds the trees of the condition parts)"""
        s = pool[i][1]
        ctx.evaluation()
        ctx.count("resolver_calls")
        out = await sched.run_under(None, lambda: parse_expression_including_unresolved_subexpressions(s, resolve_packages=False, replace_time_conditions=False))
        log.append(f"resolve#{i}({why})")
        if out[0] != "ok":
            fail(f"parse-raises-{type(out[1]).__name__}", f"resolver on pool string #{i} {s!r} {describe(out)[:200]}")
            return None
        c = canon(out[1])
        if i not in resolved_first:
            resolved_first[i] = c
        elif c != resolved_first[i]:
            fail("history-dependent-parse", f"resolver: {s!r} now gives {show(c)[:250]}, the first call gave {show(resolved_first[i])[:250]}")
            return None
        returned.append((i, out[1]))
        return out[1]
    # the resolver with everything switched on (packages from a table that stays the same for the whole history, time conditions
    # replaced): the trees it returns are built from package / time-condition replacements; editing them must not show in later calls
    full_table = {"1P": "[1]U[2]", "2P": "[3]O[UB1]", "3P": "[901]X[4]"}
    full_strings = [t.replace("@", sfx_) for sfx_ in [salt(seed)] for t in (
        "[UB1]@", "[UB2]@", "[UB3]@", "[1]@U[UB3]", "[UB1]@X[UB2]", "Muss@[UB1]", "Muss@[UB3]U[1] Kann@[UB2]", "[1P]@U[UB3]", "[2P]@", "X@[3P]U[UB2]", "([UB3]@)[1P]"
    )]
    full_first = {}
    full_returned = []

    async def resolve_full(i, why):
        s = full_strings[i]
        ctx.evaluation()
        ctx.count("full_resolver_calls")
        world = E.World("c11-full", pkg=full_table)

        async def go():
            E.set_world(world)
            return await parse_expression_including_unresolved_subexpressions(s, resolve_packages=True, replace_time_conditions=True)

        out = await sched.run_under(None, go)
        log.append(f"resolve-full#{i}({why})")
        if out[0] != "ok":
            fail(f"parse-raises-{type(out[1]).__name__}", f"resolver (packages and time conditions replaced) on {s!r} {describe(out)[:200]}")
            return None
        c = canon(out[1])
        if i not in full_first:
            full_first[i] = c
        else:
            ctx.count("full_resolver_results_compared")
            if c != full_first[i]:
                fail("history-dependent-parse", f"resolver (packages and time conditions replaced): {s!r} now gives {show(c)[:250]}, the first call gave {show(full_first[i])[:250]}")
                return None
        full_returned.append((i, out[1]))
        return out[1]

    # evaluation results before the history
    world_asg = {k: rng.choice("FUK") for k in G.RC_POOL}
    before = {}
    for i, entry in enumerate(pool):
        s, ast = entry[1], entry[2]
        if ast is not None:
            res = await H.async_requirement(s, E.World("c11", rc=world_asg, fc={k: True for k in G.FC_POOL}))
            before[i] = repr(res[1]) if res[0] == "ok" else "raises " + type(res[1]).__name__
            parse(i, "initial")
    ahb_indexes = [i for i, entry in enumerate(pool) if entry[0] == "ahb"]
    nviol = sum(ctx.violation_counts.values())
    for step in range(nops):
        r = rng.random()
        if r < 0.08:
            if not cross_parse(rng.randrange(len(pool)), "random"):
                return
        elif r < 0.16:
            await resolve(rng.choice(ahb_indexes), "random")
        elif r < 0.26:
            if full_returned and rng.random() < 0.6:
                i, tree = rng.choice(full_returned)
                op, depth = mutate(tree, rng)
                log.append(f"mutate-full#{i}:{op}@depth{depth}")
                ctx.count("mutations_of_resolved_trees")
                await resolve_full(i, "after-mutation")
                # ... and every other string that contains the same abbreviations
                for j in rng.sample(range(len(full_strings)), 3):
                    await resolve_full(j, "after-mutation-of-another-resolved-tree")
            else:
                await resolve_full(rng.randrange(len(full_strings)), "random")
        elif r < 0.45 or not returned:
            parse(rng.randrange(len(pool)), "random")
        elif r < 0.9:
            i, tree = rng.choice(returned)
            op, depth = mutate(tree, rng)
            log.append(f"mutate#{i}:{op}@depth{depth}")
            ctx.count("mutations")
            ctx.count("mutation:" + op)
            if depth >= 1:
                ctx.count("nested_mutations")
            # quiescent point: the same string parsed again must still be pristine
            if pool[i][0] == "ahb":
                # (the edited tree may have come from the resolver: its condition parts are strings of their own)
                for j, entry in enumerate(pool):
                    if entry[0] == "cond" and entry[1] in pool[i][3] and j in pristine:
                        parse(j, "after-mutation-of-enclosing-expression")
            parse(i, "after-mutation")
        else:
            for i in range(len(pool)):
                if i in pristine:
                    parse(i, "sweep")
        if sum(ctx.violation_counts.values()) > nviol:
            return
    if flood:
        # more distinct strings than the cache holds: everything of this history is evicted, then parsed afresh
        sfx = salt(seed)
        for n in range(CACHE_SIZE + 80):
            for fn, text in ((parse_condition_expression_to_tree, f"[{n % 400 + 1}]{sfx}{' ' * (n // 400)}\n"), (parse_ahb_expression_to_single_requirement_indicator_expressions, f"Muss[{n % 400 + 1}]{sfx}{' ' * (n // 400)}\n")):
                flooded = capture(fn, text)
                if flooded[0] != "ok":
                    fail(f"parse-raises-{type(flooded[1]).__name__}", f"distinct string number {n + 1} of a flood, {text!r}: {describe(flooded)[:200]}")
                    return
        ctx.count("floods")
        log.append("flood")
    for i in range(len(pool)):
        if i in pristine:
            parse(i, "final")
    for i in range(len(pool)):
        if not cross_parse(i, "final"):
            return
    for i in ahb_indexes:
        await resolve(i, "final")
    for i in range(len(full_strings)):
        await resolve_full(i, "final")
    for i, entry in enumerate(pool):
        s, ast = entry[1], entry[2]
        if ast is not None:
            res = await H.async_requirement(s, E.World("c11", rc=world_asg, fc={k: True for k in G.FC_POOL}))
            after = repr(res[1]) if res[0] == "ok" else "raises " + type(res[1]).__name__
            ctx.evaluation()
            ctx.count("evaluations_compared")
            if after != before[i]:
                fail("history-dependent-evaluation", f"requirement_constraint_evaluation({s!r}): before the history {before[i][:200]}, after it {after[:200]}")
                return


async def run(ctx):
    E.install()
    n = ctx.budget(120, 12_000)
    for h in range(n):
        seed = ctx.rng.randrange(1 << 20)
        case = {"seed": seed, "nops": ctx.rng.choice([30, 60, 120, 200]), "flood": h % (12 if ctx.quick else 40) == 0}
        await run_history(ctx, case)
        if h % 40 == 0:
            pool = make_pool(random.Random(f"c11/{seed}"), seed)
            ctx.sample({"history": case, "pool_excerpt": [p[1] for p in pool[:3]] + [pool[-1][1]], "operations": "parse / mutate returned tree (replace, remove, append, clear, rename, swap, nested-append) + re-parse / sweep / flood"}, cls="history")


async def replay(ctx, phase, case):
    E.install()
    await run_history(ctx, case)
