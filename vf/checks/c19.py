"""C19 - JSON serialisation round-trips trees, evaluation inputs and evaluation results."""

import json
import uuid

from vf import evaluators as E
from vf import sched
from vf.canon import canon, show
from vf.gen import ahb as GA
from vf.gen import expr as G
from vf.monitors import REAL_OF, capture, describe
from vf.ref import logic

from ahbicht.content_evaluation.fc_evaluators import text_to_be_evaluated_by_format_constraint
from ahbicht.expressions.ahb_expression_evaluation import evaluate_ahb_expression_tree
from ahbicht.expressions.ahb_expression_parser import parse_ahb_expression_to_single_requirement_indicator_expressions
from ahbicht.expressions.condition_expression_parser import extract_categorized_keys, extract_categorized_keys_from_tree, parse_condition_expression_to_tree
from ahbicht.expressions.expression_resolver import expand_packages, expand_time_conditions, parse_expression_including_unresolved_subexpressions
from ahbicht.expressions.format_constraint_expression_evaluation import format_constraint_evaluation
from ahbicht.expressions.requirement_constraint_expression_evaluation import requirement_constraint_evaluation
from ahbicht.json_serialization.concise_condition_key_tree_schema import ConciseConditionKeyTreeSchema
from ahbicht.json_serialization.concise_tree_schema import ConciseTreeSchema
from ahbicht.json_serialization.tree_schema import TreeSchema
from ahbicht.models.categorized_key_extract import CategorizedKeyExtract, CategorizedKeyExtractSchema
from ahbicht.models.condition_nodes import EvaluatedFormatConstraint, EvaluatedFormatConstraintSchema
from ahbicht.models.content_evaluation_result import ContentEvaluationResult, ContentEvaluationResultSchema
from ahbicht.models.evaluation_results import (
    AhbExpressionEvaluationResultSchema,
    FormatConstraintEvaluationResultSchema,
    RequirementConstraintEvaluationResultSchema,
)

MESSAGES = [None, "E901", "Formatprüfung »fehlgeschlagen« ✗", "'a' oder \"b\"\n\tc", "", "  \\ / \x7f", "𝔘𝔫𝔦"]
PKG_TABLE = {"1P": "[1]U[501]", "2P": "([2]O[3])[901]", "3P": "[UB1]U[4]", "10P": "[5][902]"}


_SCHEMA_INSTANCES = {}


def round_trip(ctx, what, schema, obj, compare=None):
    """dumps -> loads; returns the loaded object or None after reporting"""
    if ctx.crng.random() < 0.5:
        # applications keep one schema instance around: half of the round trips go through a long-lived instance per schema class
        schema = _SCHEMA_INSTANCES.setdefault(type(schema), schema)
        ctx.count("round_trips_through_long_lived_schema_instances")
    ctx.evaluation()
    ctx.count("round_trips:" + what)
    dumped = capture(schema.dumps, obj)
    if dumped[0] != "ok":
        ctx.violation(f"dump-raises-{type(dumped[1]).__name__}", f"{type(schema).__name__}().dumps({obj!r:.300}) {describe(dumped)[:200]}")
        return None
    try:
        json.loads(dumped[1])
    except ValueError as err:
        ctx.violation("dump-not-json", f"{type(schema).__name__}().dumps({obj!r:.200}) is not JSON: {err}")
        return None
    loaded = capture(schema.loads, dumped[1])
    if loaded[0] != "ok":
        ctx.violation(f"load-raises-{type(loaded[1]).__name__}", f"{type(schema).__name__}: loading the dump of {obj!r:.300} {describe(loaded)[:300]}; JSON: {dumped[1][:300]}")
        return None
    equal = (loaded[1] == obj) if compare is None else compare(loaded[1], obj)
    if not equal:
        ctx.violation("round-trip-not-equal", f"{type(schema).__name__}: {obj!r:.400} came back as {loaded[1]!r:.400}")
        return None
    return loaded[1]


async def evaluate_tree(tree, world, ahb: bool):
    async def go():
        E.set_world(world)
        text_to_be_evaluated_by_format_constraint.set("text")
        if ahb:
            return await evaluate_ahb_expression_tree(tree)
        return await requirement_constraint_evaluation(tree)

    return await sched.run_under(None, go)


async def check_tree(ctx, case):
    """case: {"s", "kind": cond | ahb | resolved, "asg"}"""
    s, kind = case["s"], case["kind"]
    crng = ctx.case_rng(case)
    ctx.set_case("tree", case)
    world = E.World("c19", rc=case["asg"], fc={k: int(k) % 2 == 0 for k in E.FC_KEYS}, pkg=dict(PKG_TABLE))
    if kind == "cond":
        out = capture(parse_condition_expression_to_tree, s)
    elif kind == "ahb":
        out = capture(parse_ahb_expression_to_single_requirement_indicator_expressions, s)
    else:

        async def go():
            E.set_world(world)
            return await parse_expression_including_unresolved_subexpressions(s, resolve_packages=case.get("resolve", False), replace_time_conditions=case.get("replace", True))

        out = await sched.run_under(None, go)
    if out[0] != "ok":
        if isinstance(out[1], NotImplementedError):
            return  # unknown package: C10's business
        ctx.violation("wellformed-expression-not-parsed", f"{kind} parse of {s!r} {describe(out)[:200]}")
        return
    tree = out[1]
    ctx.count("trees")
    if case.get("staged"):
        # the caller inspects the unresolved tree first (keys, a first evaluation that may fail on the unresolved package) and only then expands
        # THIS tree object: what the library remembered about the tree before must not survive the expansion
        ctx.count("staged_resolutions")
        capture(extract_categorized_keys_from_tree, tree)
        await evaluate_tree(tree, world, ahb=kind != "cond")

        async def expand():
            E.set_world(world)
            return expand_time_conditions(await expand_packages(tree))

        exp = await sched.run_under(None, expand)
        if exp[0] != "ok":
            if isinstance(exp[1], NotImplementedError):
                return
            ctx.violation(f"expansion-raises-{type(exp[1]).__name__}", f"expand_packages / expand_time_conditions on the tree of {s!r} {describe(exp)[:200]}")
            return
        tree = exp[1]
    if crng.random() < 0.2:
        # a document the schema rejects, loaded in between (clients do send broken JSON): must not influence later loads
        ctx.count("rejected_documents_in_between")
        bad = crng.choice(['{"type": "and_composition", "children": [{"token": {"value": "1"}, "tree": null}]}', '{"type": "x", "children": [{"tree": {"type": "y", "children": [{"tree": {"type": "z", "children": "oops"}}]}}]}', '{"children": [], "type": "a", "surprise": 1}', '[1, 2]', '{"type": "a", "children": [{"token": null, "tree": {"type": "b", "children": [{"token": {"type": 5, "value": []}}]}}]}'])
        capture(TreeSchema().loads, bad)
    if crng.random() < 0.5:
        # the library's other (dump-only) tree schemas are used on equal trees beforehand: serialising through one schema must not
        # influence what another one produces later
        ctx.count("concise_dumps_before_round_trip")
        for other in (ConciseConditionKeyTreeSchema(), ConciseTreeSchema()):
            capture(other.dumps, tree)
    back = round_trip(ctx, "tree:" + kind, TreeSchema(), tree)
    if back is None:
        return
    if canon(back) != canon(tree):
        ctx.violation("round-trip-not-equal", f"TreeSchema: {s!r}: token types or node names changed: {show(canon(tree))[:300]} came back as {show(canon(back))[:300]}")
        return
    ctx.nontrivial(["tree", kind, s])
    # evaluating the round-tripped tree gives the same result as evaluating the original
    if case.get("evaluable"):
        a = await evaluate_tree(tree, world, ahb=kind != "cond")
        b = await evaluate_tree(back, E.World("c19", rc=case["asg"], fc=world.fc, pkg=dict(PKG_TABLE)), ahb=kind != "cond")
        ctx.evaluation()
        ctx.count("evaluations_compared")
        sa = repr(a[1]) if a[0] == "ok" else "raises " + type(a[1]).__name__
        sb = repr(b[1]) if b[0] == "ok" else "raises " + type(b[1]).__name__
        if sa != sb:
            ctx.violation("round-tripped-tree-evaluates-differently", f"{s!r}: original tree -> {sa[:300]}; round-tripped tree -> {sb[:300]}")
            return
        # ... and the results themselves round-trip, including undetermined (null) outcomes
        if a[0] == "ok":
            res = a[1]
            if kind == "cond":
                if res.requirement_constraints_fulfilled is None:
                    ctx.count("results_with_undetermined_outcome")
                round_trip(ctx, "requirement-result", RequirementConstraintEvaluationResultSchema(), res)
                fout = await sched.run_under(None, lambda: _format(res.format_constraints_expression, world))
                if fout[0] == "ok":
                    round_trip(ctx, "format-result", FormatConstraintEvaluationResultSchema(), fout[1])
            else:
                if res.requirement_constraint_evaluation_result.requirement_constraints_fulfilled is None:
                    ctx.count("results_with_undetermined_outcome")
                round_trip(ctx, "ahb-result", AhbExpressionEvaluationResultSchema(), res)
                round_trip(ctx, "requirement-result", RequirementConstraintEvaluationResultSchema(), res.requirement_constraint_evaluation_result)
                round_trip(ctx, "format-result", FormatConstraintEvaluationResultSchema(), res.format_constraint_evaluation_result)


async def _format(fce, world):
    E.set_world(world)
    text_to_be_evaluated_by_format_constraint.set("text")
    return await format_constraint_evaluation(fce)


def random_cer(rng):
    rcs = rng.sample(["1", "2", "3", "499", "2000", "2499", "77"], rng.randint(0, 5))
    fcs = rng.sample(["901", "902", "950", "999", "931"], rng.randint(0, 4))
    hints = rng.sample(["500", "501", "900", "777"], rng.randint(0, 3))
    return ContentEvaluationResult(
        hints={k: rng.choice(["Hinweis " + k, "ünïcode ✓", None, ""]) for k in hints},
        format_constraints={k: EvaluatedFormatConstraint(format_constraint_fulfilled=rng.random() < 0.5, error_message=rng.choice(MESSAGES)) for k in fcs},
        requirement_constraints={k: REAL_OF[rng.choice("FUKN")] for k in rcs},
        packages=rng.choice([None, {}, {"1P": "[1]U[2]"}, {"10P": "[5]", "123P": "([1]O[2])[901]"}]),
        id=rng.choice([None, None, uuid.UUID(int=rng.getrandbits(128))]),
    )


def check_inputs(ctx, rng):
    cer = random_cer(rng)
    ctx.set_case("cer", {"cer": repr(cer)})
    if round_trip(ctx, "content-evaluation-result", ContentEvaluationResultSchema(), cer) is not None:
        ctx.nontrivial(["cer", repr(cer)])
    for efc in cer.format_constraints.values():
        round_trip(ctx, "evaluated-format-constraint", EvaluatedFormatConstraintSchema(), efc)


async def check_extract(ctx, s, resolve, replace):
    ctx.set_case("extract", {"s": s, "resolve": resolve, "replace": replace})
    world = E.World("c19", pkg=dict(PKG_TABLE))

    async def go():
        E.set_world(world)
        return await extract_categorized_keys(s, resolve_packages=resolve, replace_time_conditions=replace)

    # the extract as extract_categorized_keys_from_tree hands it out by default (keys in order and multiplicity of occurrence)
    parsed = capture(parse_condition_expression_to_tree, s)
    if parsed[0] == "ok":
        raw = capture(extract_categorized_keys_from_tree, parsed[1])
        if raw[0] == "ok":
            ctx.count("unsanitized_extracts")
            round_trip(ctx, "categorized-key-extract-as-extracted", CategorizedKeyExtractSchema(), raw[1])
    out = await sched.run_under(None, go)
    if out[0] != "ok":
        return
    if round_trip(ctx, "categorized-key-extract", CategorizedKeyExtractSchema(), out[1]) is not None:
        ctx.nontrivial(["extract", s, resolve, replace])
    # the content evaluation results ahbicht generates from the extract
    if len(out[1].requirement_constraint_keys) + len(out[1].format_constraint_keys) <= 3:
        gen = capture(out[1].generate_possible_content_evaluation_results)
        if gen[0] == "ok":
            for cer in gen[1][:12]:
                round_trip(ctx, "content-evaluation-result", ContentEvaluationResultSchema(), cer)
            # ... and the extract itself once more, now that it has been USED (an object that caches something must still round-trip)
            ctx.count("extracts_round_tripped_after_use")
            round_trip(ctx, "categorized-key-extract-after-use", CategorizedKeyExtractSchema(), out[1])


def atom_c19(rng):
    r = rng.random()
    if r < 0.15:
        return "[%s%s]" % (rng.choice(list(PKG_TABLE)), rng.choice(["", "", "0..1", "2..7"]))
    if r < 0.25:
        return "[UB%d]" % rng.randint(1, 3)
    return "[%s]" % rng.choice(G.RC_POOL + G.HINT_POOL + G.FC_POOL + G.RC_EDGE + G.FC_EDGE)


def check_deep_tree(ctx, case):
    """the tree of a long expression (case: {"operands", "op"}): the nested marshmallow schemata recurse with the depth of the tree"""
    ctx.set_case("deep-tree", case)
    chain = case["op"].join("[%d]" % (i % 400 + 1) for i in range(case["operands"]))
    parsed = capture(parse_condition_expression_to_tree, chain)
    if parsed[0] != "ok":
        ctx.violation(f"parse-raises-{type(parsed[1]).__name__}", f"a chain of {case['operands']} operands {describe(parsed)[:200]}")
        return
    ctx.evaluation()
    ctx.count("deep_tree_round_trips")
    schema = TreeSchema()
    dumped = capture(schema.dumps, parsed[1])
    loaded = capture(schema.loads, dumped[1]) if dumped[0] == "ok" else None
    for step, out in (("dumps", dumped), ("loads", loaded)):
        if out is not None and out[0] != "ok":
            kind = "deep-tree-round-trip-raises-RecursionError" if isinstance(out[1], RecursionError) else f"{step[:4]}-raises-{type(out[1]).__name__}"
            ctx.violation(kind, f"TreeSchema().{step} of the parse tree of a well-formed expression with {case['operands']} operands in one run (joined by {case['op']!r}) raised {type(out[1]).__name__}; the parsers return this tree and the evaluation handles it")
            return
    if loaded[1] != parsed[1] or canon(loaded[1]) != canon(parsed[1]):
        ctx.violation("round-trip-not-equal", f"TreeSchema: the tree of a chain of {case['operands']} operands came back different")
        return
    ctx.nontrivial(["deep-tree", case["operands"], case["op"]])


def define_foreign_schemas():
    """the application has marshmallow schemas of its own whose class names coincide with ahbicht's (an OAuth TokenSchema, a TreeSchema for
    a category tree, ...): marshmallow keeps ONE process-wide registry of schema classes by name"""
    from marshmallow import Schema, fields

    made = []
    for name in ("TokenSchema", "TreeSchema", "_TokenOrTreeSchema", "ConciseTreeSchema", "EvaluatedFormatConstraintSchema", "ContentEvaluationResultSchema", "CategorizedKeyExtractSchema", "RequirementConstraintEvaluationResultSchema", "FormatConstraintEvaluationResultSchema", "AhbExpressionEvaluationResultSchema"):
        made.append(type(name, (Schema,), {"access_token": fields.String(), "expires_in": fields.Integer()}))
    return made


_FOREIGN = []


async def run(ctx):
    rng = ctx.rng
    E.install()
    pools = G.Pools(rc=["1", "2", "3", "4"], hint=["501", "502"], fc=["901", "902", "903"])
    ctx.note("foreign_schemas", "after the first 50 cases the process defines marshmallow schema classes of its own with the same class names as ahbicht's")
    if ctx.shard == 0:
        for operands in (30, 45, 60, 110) if ctx.quick else (30, 45, 52, 56, 60, 80, 110, 150, 200):
            check_deep_tree(ctx, {"operands": operands, "op": rng.choice(["U", "O", "X", " "])})
    for i in range(ctx.budget(1200, 60_000)):
        if i == 50 and not _FOREIGN:
            _FOREIGN.extend(define_foreign_schemas())
            ctx.count("foreign_schema_classes_defined", len(_FOREIGN))
        asg = {k: rng.choice("FUK") for k in E.RC_KEYS}
        r = rng.random()
        if r < 0.3:
            # evaluable condition expression
            ast = G.gen_valid(rng, rng.randint(0, 3), pools, max_leaves=8, invalid_pred=logic.structurally_invalid)
            case = {"s": G.render(ast, rng), "kind": "cond", "asg": asg, "evaluable": True}
        elif r < 0.6:
            parts = GA.gen_parts(rng, lambda: G.gen_valid(rng, rng.randint(0, 2), pools, max_leaves=5, invalid_pred=logic.structurally_invalid), max_parts=3)
            case = {"s": GA.render_parts(parts, rng), "kind": "resolved", "asg": asg, "evaluable": True}
        elif r < 0.75:
            toks = G.gen_tokens(rng, max_items=rng.randint(1, 6), depth=2, atom=atom_c19)
            case = {"s": G.join_tokens(toks, rng), "kind": "cond", "asg": asg}
        elif r < 0.85:
            s = GA.render_free_ahb(rng, lambda rr: G.join_tokens(G.gen_tokens(rr, max_items=3, depth=1, atom=atom_c19), rr))
            case = {"s": s, "kind": "ahb", "asg": asg}
        else:
            toks = G.gen_tokens(rng, max_items=rng.randint(1, 5), depth=2, atom=atom_c19)
            s = G.join_tokens(toks, rng)
            if rng.random() < 0.5:
                s = rng.choice(["Muss", "X", "soll", "K"]) + s
            case = {"s": s, "kind": "resolved", "asg": asg, "resolve": rng.random() < 0.6, "replace": rng.random() < 0.6}
            if rng.random() < 0.5:
                # parse unresolved, look at the tree, then expand the same object; evaluable if every package is known
                case.update(resolve=False, replace=False, staged=True, evaluable=True)
        await check_tree(ctx, case)
        if i % 120 == 0:
            ctx.sample({"s": case["s"], "kind": case["kind"]}, cls="tree")
    for i in range(ctx.budget(1200, 60_000)):
        check_inputs(ctx, rng)
    ctx.sample({"cer": repr(random_cer(rng))[:400]}, cls="cer")
    for i in range(ctx.budget(450, 20_000)):
        toks = G.gen_tokens(rng, max_items=rng.randint(1, 5), depth=1, atom=atom_c19)
        await check_extract(ctx, G.join_tokens(toks, rng), rng.random() < 0.5, rng.random() < 0.5)


async def replay(ctx, phase, case):
    E.install()
    if not _FOREIGN:
        _FOREIGN.extend(define_foreign_schemas())  # the state the workload is in for all but its first 50 cases
    if phase == "deep-tree":
        check_deep_tree(ctx, case)
    elif phase == "tree":
        await check_tree(ctx, case)
    elif phase == "extract":
        await check_extract(ctx, case["s"], case["resolve"], case["replace"])
    else:
        for _ in range(2000):
            check_inputs(ctx, ctx.rng)
