"""C05 - hints, format constraints, brackets and operand order never change the requirement; definite outcomes are stable under refinement."""

from vf import evalhelp as H
from vf import evaluators as E
from vf import sched
from vf.gen import expr as G
from vf.monitors import capture, describe
from vf.ref import logic

from ahbicht.expressions.expression_resolver import parse_expression_including_unresolved_subexpressions
from ahbicht.expressions.condition_expression_parser import parse_condition_expression_to_tree

FRESH_HINTS = ["590", "500", "900", "899", "700"]  # incl. both ends of the hint range
FRESH_FCS = ["990", "999", "936", "930", "906"]  # incl. the upper end of the format-constraint range (931-935 are shipped implementations)


def transformations(ast, rng, limit):
    """[(name, position, transformed ast, render style)] - all positions for small expressions, sampled above `limit`"""
    out = []
    used = {leaf[1] for leaf in G.leaves(ast)}
    h = ["hint", rng.choice([k for k in FRESH_HINTS if k not in used])]
    f = ["fc", rng.choice([k for k in FRESH_FCS if k not in used])]
    # T1: and a fresh hint onto the whole expression
    out.append(("T1-hint-onto-whole", (), ["and", ast, h] if rng.random() < 0.5 else ["and", h, ast], None))
    for path in G.paths(ast):
        node = G.get_at(ast, path)
        parent = G.get_at(ast, path[:-1]) if path else None
        # T2: and a fresh hint onto any operand of U/O/X
        if parent is not None and parent[0] in ("and", "or", "xor"):
            new = ["and", node, h] if rng.random() < 0.5 else ["and", h, node]
            out.append(("T2-hint-onto-operand", path, G.replace_at(ast, path, new), None))
        # T3: attach a fresh format constraint to any sub-expression that contains a requirement constraint
        if G.has_rc(node):
            new = ["then", node, f] if rng.random() < 0.6 else ["then", f, node]
            out.append(("T3-attach-fc", path, G.replace_at(ast, path, new), None))
        # T4: redundant brackets around any sub-expression
        out.append(("T4-redundant-brackets", path, ast, G.Style(p_redundant=0.0, extra_brackets=[path])))
        # T5: swap the operands of any U/O/X
        if node[0] in ("and", "or", "xor"):
            out.append(("T5-swap-operands", path, G.replace_at(ast, path, [node[0], node[2], node[1]]), None))
    if len(out) > limit:
        keep = [out[0]] + rng.sample(out[1:], limit - 1)
        return keep
    return out


def parse(ctx, s, what):
    out = capture(parse_condition_expression_to_tree, s)
    if out[0] != "ok":
        ctx.violation("transformed-expression-not-parsed", f"{what}: parse_condition_expression_to_tree({s!r}) {describe(out)[:200]}")
        return None
    return out[1]


async def check_expression(ctx, case):
    """case: {"ast", "s", optional "only": [name, path], "assignments"}"""
    ast, s = case["ast"], case["s"]
    rng = ctx.case_rng(case)
    ctx.set_case("expression", case)
    tree = parse(ctx, s, "source expression")
    if tree is None:
        return
    rcs = G.keys_of(ast, "rc")
    asgs = case.get("assignments") or H.assignments_for(rcs, rng, full_up_to=4, sample=60)
    base = []
    for asg in asgs:
        kind, val = H.direct_state(tree, ast, asg)
        if kind != "state":
            ctx.violation("valid-expression-raises", f"{s!r} under {asg}: {val!r:.200} (the source expression is structurally valid)", case=dict(case, assignments=[asg]))
            return
        base.append(val[0])
    ctx.count("expressions")
    # every variant is rendered and parsed once and reused across all assignments
    variants = transformations(ast, rng, limit=40 if ctx.quick else 80)
    if case.get("only"):
        variants = [v for v in variants if v[0] == case["only"][0] and list(v[1]) == list(case["only"][1])] or variants
    for name, path, tast, style in variants:
        ts = G.render(tast, rng, style or G.Style())
        ttree = parse(ctx, ts, name)
        if ttree is None:
            continue
        ctx.count("variants:" + name)
        ctx.nontrivial([name, s, list(path)])
        for asg, expected in zip(asgs, base):
            ctx.evaluation()
            kind, val = H.direct_state(ttree, tast, asg)
            wcase = dict(case, assignments=[asg], only=[name, list(path)])
            if kind == "invalid":
                ctx.violation("transformation-makes-invalid", f"{name} at {list(path)}: {s!r} -> {ts!r} raises InvalidExpressionError under {asg}: {val.error_message[:160]}", case=wcase)
                break
            if kind != "state":
                ctx.violation(f"evaluation-raises-{type(val).__name__}", f"{name} at {list(path)}: {ts!r} under {asg} raised {val!r:.200}", case=wcase)
                break
            if val[0] != expected:
                ctx.violation(name, f"{name} at {list(path)} changes the requirement outcome under {asg}: {s!r} -> {logic.NAME[expected]}, {ts!r} -> {logic.NAME[val[0]]}", case=wcase)
                break
    # T6: a definite outcome with UNKNOWN entries is the outcome of every refinement
    for asg, state in zip(asgs, base):
        if "K" in asg.values() and state != "K":
            ctx.count("definite_outcomes_with_unknown")
            ctx.nontrivial(["T6", s, sorted(asg.items())])
            for ref_asg in logic.refinements(asg):
                ctx.evaluation()
                kind, val = H.direct_state(tree, ast, ref_asg)
                if kind != "state" or val[0] != state:
                    got = logic.NAME[val[0]] if kind == "state" else repr(val)[:100]
                    ctx.violation("T6-refinement", f"{s!r}: outcome {logic.NAME[state]} under {asg}, but resolving UNKNOWN as {ref_asg} gives {got}", case=dict(case, assignments=[asg]))
                    break
    # the same relations through the async API for one assignment and a few variants
    asg = rng.choice(asgs)
    expected = logic.OUTCOME[base[asgs.index(asg)]]
    for name, path, tast, style in rng.sample(variants, min(6, len(variants))):
        ts = G.render(tast, rng, style or G.Style())
        ctx.evaluation()
        ctx.count("async_related_pairs")
        scheduler = sched.Sched(sched.RandomChooser(rng)) if rng.random() < 0.7 else None
        if scheduler is not None:
            ctx.count("async_related_pairs_under_random_completion_order")
        hints = None
        if rng.random() < 0.35:
            # hint texts are user data: empty, blank, "0" and "None" are texts like any other
            hints = {k: rng.choice(["", "", " ", "0", "None", E.hint_text(k)]) for k in G.keys_of(tast, "hint")}
            ctx.count("async_related_pairs_with_odd_hint_texts")
        world = H.world_for(tast, asg, hints=hints)
        if rng.random() < 0.3:
            # the transformed expression written with packages (resolved by the library before the evaluation): the same relations hold
            past, table = G.abbreviate(tast, rng, ["1P", "2P", "3P"], 3)
            if table:
                ctx.count("async_related_pairs_written_with_packages")
                world.pkg = table
                ts = G.render(past, rng, G.EXACT)

                async def resolved(ts=ts):
                    return await parse_expression_including_unresolved_subexpressions(ts, resolve_packages=True)

                rout = await sched.run_under(None, lambda: _with_world(world, resolved))
                if rout[0] != "ok":
                    ctx.violation(f"evaluation-raises-{type(rout[1]).__name__}", f"{name}: resolving {ts!r} with packages {table} {describe(rout)[:200]}", case=case)
                    continue
                aout = await H.async_requirement(rout[1], world, scheduler)
            else:
                aout = await H.async_requirement(ts, world, scheduler)
        else:
            aout = await H.async_requirement(ts, world, scheduler)
        if aout[0] != "ok":
            ctx.violation("transformation-makes-invalid" if type(aout[1]).__name__ == "InvalidExpressionError" else f"evaluation-raises-{type(aout[1]).__name__}", f"{name}: requirement_constraint_evaluation({ts!r}) under {asg} {describe(aout)[:200]}", case=case)
        elif (aout[1].requirement_constraints_fulfilled, aout[1].requirement_is_conditional) != expected:
            ctx.violation(name, f"{name}: requirement_constraint_evaluation({ts!r}) under {asg} = {(aout[1].requirement_constraints_fulfilled, aout[1].requirement_is_conditional)}, source expression {s!r} gives {expected}", case=case)


async def _with_world(world, factory):
    E.set_world(world)
    return await factory()


async def run(ctx):
    rng = ctx.rng
    E.install()
    for i in range(ctx.budget(260, 30_000)):
        depth = rng.choice([1, 2, 2, 3, 3, 4])
        ast = G.gen_valid(rng, depth, max_leaves=10 if rng.random() < 0.8 else 20, invalid_pred=logic.structurally_invalid)
        case = {"ast": ast, "s": G.render(ast, rng)}
        await check_expression(ctx, case)
        if i % 80 == 0:
            ctx.sample({"s": case["s"], "variants": [G.render(t, rng, st or G.Style()) for _n, _p, t, st in transformations(ast, rng, 6)][:6]}, cls="expression")


async def replay(ctx, phase, case):
    E.install()
    await check_expression(ctx, case)
