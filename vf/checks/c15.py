"""C15 - each free-text data element's format constraints see only that element's own input."""

import random
import zlib

from vf import evaluators as E
from vf import sched
from vf import treebuild as TB
from vf.gen import ahb as GA
from vf.gen import expr as G
from vf.gen import tree as T
from vf.monitors import describe
from vf.ref import logic

from ahbicht.models.validation_values import RequirementValidationValue
from ahbicht.validation.validation import validate_data_element_freetext

RC = ["1", "2", "3", "4"]
ALL_FC_KEYS = [str(k) for k in range(901, 1000) if not 931 <= k <= 935]


def level_parts(rng):
    def parts_fn(kind):
        if kind in ("G", "S"):
            r = rng.random()
            if r < 0.7:
                return [[rng.choice(["MUSS", "X", "KANN", "SOLL"]), None]]
            return [[rng.choice(["MUSS", "KANN", "X"]), ["rc", rng.choice(RC)]]]
        if kind == "E":
            return [["X", ["rc", rng.choice(RC)]]]
        return [["MUSS", None]]  # free text: replaced afterwards

    return parts_fn


def gen_case(ctx, rng, shared_keys=False, dates=False):
    gen = T.TreeGen(rng, level_parts(rng), max_depth=2 if ctx.quick else rng.choice([2, 3]), max_branch=rng.choice([3, 4]), p_pool=0.15, input_fn=lambda d: rng.choice([f"in-{d}"] * 7 + [None, "", f" in-{d}", f"in-{d} ", f"\tin-{d}\n", "   "]))
    spec = gen.tree()
    keys = list(ALL_FC_KEYS)
    rng.shuffle(keys)
    owners = {}
    for node in T.walk(spec):
        if node["k"] != "F":
            continue
        n = rng.randint(1, 3)
        if shared_keys:
            # the same few keys at every element (different inputs): what one element's evaluation produces must not reach another one
            mine = rng.sample(["901", "902", "903"], rng.randint(1, 2))
        elif len(keys) < n:
            mine = []
        else:
            mine, keys = keys[:n], keys[n:]
        for k in mine:
            if not shared_keys:
                owners[k] = node["d"]
        pools = G.Pools(rc=RC, hint=["501", "502"], fc=mine or ["901"])

        def cond(pools=pools, mine=mine):
            if not mine:
                return ["rc", rng.choice(RC)]
            for _ in range(100):
                t = G.gen_valid(rng, rng.randint(0, 2), pools, max_leaves=6, invalid_pred=logic.structurally_invalid, p_fc_leaf=0.3, p_then=0.6)
                if G.keys_of(t, "fc"):
                    return t
            return ["then", ["rc", rng.choice(RC)], ["fc", mine[0]]]

        parts = GA.gen_parts(rng, cond, max_parts=2, p_bare=0.0, p_prefix=0.3, prefix_ops=("X",))
        node["x"] = T.make_expression(parts, rng)
    if dates:
        # the shipped date-time constraints 932-935 on inputs that denote the SAME instant in different notations (and are no limit of a
        # Strom-/Gastag, so that the results carry messages): what is said about one element's input must not show up at another element
        from vf.ref import berlin as B

        t = rng.randrange(B.T_1996, B.T_2038) // 60 * 60 + 17
        offsets = [0, 3600, 7200, -3600, 19800, -18000, 12600, 34200, -34200]
        rng.shuffle(offsets)
        n = 0
        for node in T.walk(spec):
            if node["k"] != "F":
                continue
            key = rng.choice(["932", "933", "934", "935"])
            cond = rng.choice([["fc", key], ["then", ["rc", rng.choice(RC)], ["fc", key]], ["and", ["rc", rng.choice(RC)], ["fc", key]]])
            node["x"] = T.make_expression([[rng.choice(["MUSS", "X", "KANN"]), cond]], rng)
            node["input"] = B.fmt(t, offsets[n % len(offsets)])
            n += 1
        owners = {}
    date_verdicts = {}
    if dates == "verdicts":
        # every element its OWN instant and notation, judged by a shipped date-time constraint (written as key or as time condition):
        # the verdict reported for the element must be the verdict on ITS entered input as entered
        from vf.ref import berlin as B

        for node in T.walk(spec):
            if node["k"] != "F":
                continue
            r = rng.random()
            day = rng.randrange(B.T_1996 // 86400, B.T_2038 // 86400 - 1)
            if r < 0.5:
                t = day * 86400 + rng.choice([22, 23, 4, 5]) * 3600  # 00:00 / 06:00 German local time in winter or summer (or neither)
            elif r < 0.7:
                t = day * 86400 + rng.choice([22, 23, 4, 5]) * 3600 + rng.randint(1, 59)
            else:
                t = rng.randrange(B.T_1996, B.T_2038)
            off = rng.choice([0, 0, 3600, 7200, -3600, 19800, -18000, 34200])
            key, text = rng.choice([("931", "[931]"), ("932", "[932]"), ("933", "[933]"), ("934", "[934]"), ("935", "[935]"), ("932", "[UB1]"), ("934", "[UB2]"), ("932", "[ UB1 ]")])
            ind = rng.choice(["MUSS", "X", "KANN"])
            node["x"] = {"parts": [[ind, T.CANON_SPELLING[ind], ["fc", key], " " + text]]}
            node["input"] = B.fmt(t, off, z=(off == 0 and rng.random() < 0.3))
            if rng.random() < 0.5:
                node["vt"] = rng.choice(["DATETIME", "DATETIME", "TEXT"])
            sod = B.local_seconds_of_day(t)
            date_verdicts[node["d"]] = [key, text, {"931": off == 0, "932": sod == 0, "933": sod == 0, "934": sod == 21600, "935": sod == 21600}[key]]
        owners = {}
    asg = {k: rng.choice("FFFU") for k in RC}
    return {"date_verdicts": date_verdicts, "spec": spec, "owners": owners, "asg": asg, "soll": rng.random() < 0.5, "schedule_seed": rng.randrange(1 << 30), "shared": shared_keys, "stale": rng.random() < 0.5, "constant_objects": (rng.choice(["text-constant-objects", "text-shared-objects"]) if shared_keys and rng.random() < 0.6 else (("text-shared-objects" if rng.random() < 0.15 else False) if not dates else False))}


async def check_tree(ctx, case):
    spec, owners, asg, soll = case["spec"], case["owners"], case["asg"], case["soll"]
    ctx.set_case("tree", case)
    ctx.count("trees")
    inputs = {n["d"]: n["input"] for n in T.walk(spec) if n["k"] == "F"}
    world = E.World("c15", rc=asg, fc_mode=case.get("constant_objects") if isinstance(case.get("constant_objects"), str) else ("text-constant-objects" if case.get("constant_objects") else "text"))
    if case.get("constant_objects"):
        ctx.count("trees_with_reused_result_objects")
    chooser = sched.RandomChooser(random.Random(case["schedule_seed"]))
    sc = sched.Sched(chooser)
    built = []
    out = await TB.validate(spec, world, soll, scheduler=sc, stale_text=case.get("stale", False), built=built)
    validated_objects = TB.free_text_objects(built[0])
    ctx.evaluation()
    if case.get("stale"):
        ctx.count("runs_with_stale_text_in_context")
    if case.get("shared"):
        ctx.count("trees_with_shared_keys")
    if out[0] != "ok":
        ctx.violation(f"validation-raises-{type(out[1]).__name__}", f"validate_deep_anwendungshandbuch under {asg} {describe(out)[:300]}")
        return
    # ---- the event log of the format constraint evaluator: (fc, key, world, text passed in, text in the ContextVar after the yield)
    elements_seen = set()
    for ev in world.log:
        if ev[0] != "fc":
            continue
        ctx.count("fc_events")
        _fc, key, _wid, text_before, text_after = ev
        if text_before != text_after or text_before == TB.STALE_TEXT or (text_before is not None and text_before not in inputs.values()):
            ctx.violation("foreign-input-seen", f"format constraint [{key}] was evaluated against {text_before!r} (context variable after the yield: {text_after!r}); the inputs of this AHB are {sorted(map(repr, set(inputs.values())))[:8]}")
            return
        owner = owners.get(key)
        if owner is None:
            continue
        elements_seen.add(owner)
        expected = inputs[owner]
        if text_before != expected or text_after != expected:
            ctx.violation(
                "foreign-input-seen",
                f"format constraint [{key}] belongs to data element {owner} (input {expected!r}) but was evaluated against {text_before!r} (context variable after the yield: {text_after!r}); release order {[str(x) for x in sc.order][:12]}",
            )
            return
    if len(elements_seen) >= 2 and sc.max_parked >= 2:
        ctx.count("trees_with_concurrent_elements")
        ctx.nontrivial([spec, sorted(asg.items()), case["schedule_seed"]])
    ctx.count("elements_with_fc_events", len(elements_seen))
    # ---- nothing that was said about another element's input may show up in this element's result
    got = {r.discriminator: r for r in out[1]}
    texts = {d: repr(i) for d, i in inputs.items() if isinstance(i, str) and len(i) >= 5}
    for d in inputs:
        if d not in got:
            continue
        res = got[d].validation_result
        said = f"{getattr(res, 'format_error_message', None) or ''} | {res.hints or ''}"
        for other, text in texts.items():
            if other != d and text != texts.get(d) and text in said:
                ctx.violation("foreign-input-seen", f"the result of data element {d} (input {inputs[d]!r}) talks about the input of data element {other}: {said[:300]}")
                return
    if any(isinstance(i, str) and i[:2] in ("19", "20") and "T" in i for i in inputs.values()):
        ctx.count("trees_with_same_instant_in_different_notations")
    # ---- shipped date-time constraints: the verdict reported for an element is the verdict on its own input AS ENTERED
    for d, (key, text, verdict) in (case.get("date_verdicts") or {}).items():
        if d not in got:
            continue
        res = got[d].validation_result
        if str(res.requirement_validation).startswith("IS_FORBIDDEN"):
            continue
        ctx.count("date_verdicts_checked")
        ctx.count("date_verdicts_checked_" + ("fulfilled" if verdict else "unfulfilled"))
        if res.format_validation_fulfilled is not verdict:
            ctx.violation("verdict-not-on-entered-input", f"data element {d} with expression {text!r} and entered input {inputs[d]!r}: format_validation_fulfilled={res.format_validation_fulfilled!r}, the constraint {key} on the input as entered gives {verdict} ({getattr(res, 'format_error_message', None)!r:.200})")
            return
    # ---- second oracle: the element's result in the tree run equals the result of validating the element on its own
    for seg in (n for n in T.walk(spec) if n["k"] == "S"):
        if seg["d"] not in got:
            continue
        seg_status = got[seg["d"]].validation_result.requirement_validation
        if seg_status is RequirementValidationValue.IS_FORBIDDEN:
            continue
        for d in seg["des"]:
            if d["k"] != "F":
                continue
            if d["d"] not in got:
                ctx.violation("element-not-reported", f"free-text element {d['d']} of the visited segment {seg['d']} is missing from the report")
                return
            # every other element: the very object that went through the tree run (a validation is no reason for a free text to change)
            reuse = zlib.crc32(d["d"].encode()) % 2 == 0 and d["d"] in validated_objects
            obj = validated_objects[d["d"]] if reuse else TB.build_data_element(d)
            if reuse:
                ctx.count("elements_revalidated_as_the_same_object")
                if obj.entered_input != d["input"]:
                    ctx.count("inputs_changed_by_the_tree_run")  # shows in the comparison below (the statement speaks about results)
            alone_world = E.World("c15", rc=asg, fc_mode=world.fc_mode)

            async def go(obj=obj, alone_world=alone_world):
                E.set_world(alone_world)
                return await validate_data_element_freetext(obj, seg_status, soll)

            alone = await sched.run_under(None, go)
            ctx.evaluation()
            ctx.count("elements_compared_with_standalone")
            if alone[0] != "ok":
                ctx.violation(f"validation-raises-{type(alone[1]).__name__}", f"validate_data_element_freetext({d['d']}) on its own {describe(alone)[:300]}")
                return
            a, b = got[d["d"]].validation_result, alone[1].validation_result
            if repr(a) != repr(b):
                ctx.violation("differs-from-standalone", f"data element {d['d']} ({T.expr_string(d['x'])!r}, input {d['input']!r}): in the tree run {a!r}, validated on its own{' (the same object, its input is now ' + repr(obj.entered_input) + ')' if reuse else ''} {b!r}"[:1200])
                return


async def check_threads(ctx, case):
    """several validations at the same time in different THREADS, each with an event loop and context-local data of its own (a web
    server's worker threads): the result of every one of them equals the result of the same validation done alone"""
    import asyncio
    import sys
    import threading

    from ahbicht.validation.validation import validate_deep_anwendungshandbuch

    ctx.set_case("threads", case)
    subs, reps = case["cases"], case["reps"]
    baselines = []
    for sub in subs:
        out = await TB.validate(sub["spec"], E.World("c15", rc=sub["asg"], fc_mode="text"), sub["soll"], scheduler=None)
        if out[0] != "ok":
            ctx.violation(f"validation-raises-{type(out[1]).__name__}", f"validate_deep_anwendungshandbuch under {sub['asg']} {describe(out)[:300]}")
            return
        baselines.append(TB.summarise(out[1]))
    problems = []
    start = threading.Barrier(len(subs))

    def body(n):
        sub = subs[n]

        async def go():
            E.set_world(E.World("c15", rc=sub["asg"], fc_mode="text"))
            return await validate_deep_anwendungshandbuch(TB.build(sub["spec"]), soll_is_required=sub["soll"])

        try:
            try:
                start.wait(timeout=60)
            except threading.BrokenBarrierError:
                pass  # a very loaded machine: the threads simply overlap less
            for rep in range(reps):
                got = TB.summarise(asyncio.run(go()))
                if got != baselines[n]:
                    diff = [(a, b) for a, b in zip(got, baselines[n]) if a != b][:1]
                    problems.append((n, rep, f"thread {n}, repetition {rep}: {diff[0][0] if diff else got[:1]} - alone: {diff[0][1] if diff else baselines[n][:1]}"))
                    return
        except BaseException as exc:  # pylint:disable=broad-except
            problems.append((n, -1, f"thread {n} raised {type(exc).__module__}.{type(exc).__name__}: {exc}"))

    interval = sys.getswitchinterval()
    sys.setswitchinterval(1e-5)  # thread switches every few bytecodes instead of every 5 ms (scoped to this phase)
    try:
        threads = [threading.Thread(target=body, args=(n,), daemon=True) for n in range(len(subs))]
        for t in threads:
            t.start()
        for t in threads:
            t.join(timeout=900)
    finally:
        sys.setswitchinterval(interval)
    if any(t.is_alive() for t in threads):
        # wall clock is never a verdict
        from vf.core import Inconclusive

        raise Inconclusive("the thread phase did not finish within its watchdog")
    ctx.evaluation(len(subs) * reps)
    ctx.count("validations_in_concurrent_threads", len(subs) * reps)
    if problems:
        ctx.violation("differs-under-threads", f"{len(subs)} validations running in {len(subs)} threads (own event loop and context-local data each): {problems[0][2]}"[:1200])


def gen_thread_case(ctx, rng):
    subs = []
    for _ in range(4):
        sub = gen_case(ctx, rng, shared_keys=True)
        subs.append({"spec": sub["spec"], "asg": sub["asg"], "soll": sub["soll"]})
    return {"cases": subs, "reps": 12 if ctx.quick else 40}


async def run(ctx):
    rng = ctx.rng
    E.install()
    for i in range(ctx.budget(6, 120)):
        await check_threads(ctx, gen_thread_case(ctx, rng))
    for i in range(ctx.budget(330, 33_000)):
        case = gen_case(ctx, rng, shared_keys=i % 4 == 3, dates="verdicts" if i % 6 == 5 else i % 6 == 1)
        await check_tree(ctx, case)
        if i % 90 == 0:
            ctx.sample({"free_text_elements": [(n["d"], T.expr_string(n["x"]), n["input"]) for n in T.walk(case["spec"]) if n["k"] == "F"][:8], "owners": dict(list(case["owners"].items())[:8])}, cls="tree")


async def replay(ctx, phase, case):
    E.install()
    if phase == "threads":
        await check_threads(ctx, case)
        return
    await check_tree(ctx, case)
