"""C01 - condition expressions are grouped by the documented operator precedence."""

from itertools import permutations, product

from vf.canon import canon, show
from vf.gen import expr as G
from vf.monitors import capture, describe
from vf.ref import syntax as S

from ahbicht.expressions.condition_expression_parser import parse_condition_expression_to_tree


def check_string(ctx, s: str, phase: str, must_be_wellformed=True):
    ctx.set_case(phase, {"s": s})
    verdict, ref = S.parse(s)
    if verdict != S.ACC:
        if must_be_wellformed and verdict == S.REJ:
            raise AssertionError(f"harness error: generator produced a string the reference rejects: {s!r}")
        ctx.count("skipped_unspecified")
        return
    ctx.evaluation()
    out = capture(parse_condition_expression_to_tree, s)
    if out[0] != "ok":
        kind = "wellformed-rejected" if isinstance(out[1], SyntaxError) else f"raises-{type(out[1]).__name__}"
        ctx.violation(kind, f"parse_condition_expression_to_tree({s!r}) {describe(out)[:200]}; reference grouping {S.show_ref(ref)}")
        return
    c = canon(out[1])
    if not S.matches(c, ref):
        ctx.violation("grouping", f"{s!r} parsed as {show(c)}, documented precedence gives {S.show_ref(ref)} (any binarisation of a same-operator run is accepted)")
    kinds = S.ops_in(S.strip_redundant_groups(ref))
    if len(kinds - {"grp"}) >= 2 or "grp" in kinds:
        ctx.nontrivial(s)
        ctx.count("nontrivial_strings")
    for k in kinds:
        ctx.count("with_" + k)


def add_redundant_brackets(tokens, rng):
    """wrap an atom, an existing group or the whole sequence in brackets (always redundant)"""
    toks = list(tokens)
    r = rng.random()
    if r < 0.3:
        return ["("] + toks + [")"]
    starts = [i for i, t in enumerate(toks) if t.startswith("[") or t == "("]
    i = rng.choice(starts)
    if toks[i] == "(":
        depth = 0
        j = i
        for j in range(i, len(toks)):
            depth += toks[j] == "("
            depth -= toks[j] == ")"
            if depth == 0:
                break
        return toks[:i] + ["("] + toks[i : j + 1] + [")"] + toks[j + 1 :]
    return toks[:i] + ["(", toks[i], ")"] + toks[i + 1 :]


def chain(ops_pattern, length, spell, rng):
    """atoms joined by the operator pattern (cyclic); spell: {op: spelling}; 'then' is juxtaposition"""
    toks = []
    for i in range(length):
        if i:
            op = ops_pattern[(i - 1) % len(ops_pattern)]
            if op != "then":
                toks.append(spell[op])
        toks.append("[%d]" % (i + 1))
    return toks


async def run(ctx):
    rng = ctx.rng
    # ---- random token sequences, each in four renderings ---------------------------------------------------------------
    for i in range(ctx.budget(900, 90_000)):
        toks = G.gen_tokens(rng, max_items=rng.randint(2, 7), depth=rng.randint(0, 3))
        variants = [
            G.join_tokens(toks, ws=""),
            G.join_tokens(G.respell(toks, rng), rng),
            G.join_tokens(add_redundant_brackets(G.respell(toks, rng), rng), rng),
            G.join_tokens(add_redundant_brackets(add_redundant_brackets(toks, rng), rng), rng),
        ]
        refs = []
        for s in variants:
            check_string(ctx, s, "random")
            refs.append(S.parse(s)[1])
        # harness self check: the variants really denote the same grouping
        base = S.strip_redundant_groups(refs[0])
        for s, r in zip(variants[1:], refs[1:]):
            if S.strip_redundant_groups(r) != base:
                raise AssertionError(f"harness error: variant {s!r} of {variants[0]!r} has a different reference grouping")
        ctx.count("token_sequences")
        if i % 300 == 0:
            ctx.sample({"tokens": "".join(toks), "variants": variants[1:], "reference": S.show_ref(refs[0])}, cls="random")
    # ---- the same composite term more than once in one expression (equal sub-trees next to / below each other) ------------------
    for i in range(ctx.budget(150, 15_000)):
        term = G.gen_tokens(rng, max_items=rng.randint(2, 3), depth=rng.randint(0, 1))
        other = G.gen_tokens(rng, max_items=rng.randint(1, 2), depth=0)
        ops = [rng.choice(G.AND_SP + G.OR_SP + G.XOR_SP + [""]) for _ in range(3)]

        def operand(toks):
            return ["("] + toks + [")"] if rng.random() < 0.5 else list(toks)

        def join(parts):
            out = []
            for n, part in enumerate(parts):
                if n and ops[n - 1]:
                    out.append(ops[n - 1])
                out += part
            return out

        shape = i % 4
        if shape == 0:
            toks = join([operand(term), operand(term)])
        elif shape == 1:
            toks = join([operand(term), operand(other), operand(term)])
        elif shape == 2:
            toks = join([operand(term), ["("] + join([operand(other), operand(term)]) + [")"]])
        else:
            toks = join([operand(term), operand(term), operand(term)])
        check_string(ctx, G.join_tokens(toks, rng if i % 2 else None), "repeated-terms")
        ctx.count("expressions_with_a_repeated_term")
    # ---- all orderings of the four operator levels in chains, every spelling ------------------------------------------------
    lengths = (4, 5) if ctx.quick else (4, 5, 6, 7, 8)
    spell_sets = list(product(G.AND_SP, G.OR_SP, G.XOR_SP))
    idx = 0
    for perm in permutations(["then", "and", "xor", "or"]):
        for length in lengths:
            sets = rng.sample(spell_sets, 4) if ctx.quick else spell_sets
            for a, o, x in sets:
                idx += 1
                if not ctx.mine(idx):
                    continue
                toks = chain(perm, length, {"and": a, "or": o, "xor": x}, rng)
                check_string(ctx, G.join_tokens(toks, rng if idx % 2 else None), "level-orderings")
                ctx.count("level_ordering_chains")
    ctx.sample({"chain": "".join(chain(("or", "then", "xor", "and"), 6, {"and": "∧", "or": "o", "xor": "X"}, rng))}, cls="level-orderings")
    # ---- small scope, complete: EVERY sequence of up to 5 (thorough: 6) operators out of {juxtaposition, U, X, O} between atoms
    spell_cycle = [{"and": a, "or": o, "xor": x} for a, o, x in zip(G.AND_SP, G.OR_SP, G.XOR_SP)]
    idx = 0
    for n_ops in range(1, (5 if ctx.quick else 6) + 1):
        for pattern in product(["then", "and", "xor", "or"], repeat=n_ops):
            idx += 1
            if not ctx.mine(idx):
                continue
            toks = chain(pattern, n_ops + 1, spell_cycle[idx % 3], rng)
            check_string(ctx, "".join(toks), "operator-patterns")
            ctx.count("operator_patterns")
    # ---- long alternating chains and deep nesting (separately budgeted: Earley is super-linear) -----------------------------
    longs = [(12, 2), (20, 2), (30, 1)] if ctx.quick else [(12, 6), (20, 6), (30, 4), (40, 3), (50, 1)]
    idx = 0
    for length, reps in longs:
        for _ in range(reps):
            idx += 1
            if not ctx.mine(idx):
                continue
            pattern = [rng.choice(["and", "or", "xor", "then"]) for _ in range(rng.randint(2, 5))]
            toks = chain(pattern, length, {"and": rng.choice(G.AND_SP), "or": rng.choice(G.OR_SP), "xor": rng.choice(G.XOR_SP)}, rng)
            check_string(ctx, G.join_tokens(toks, rng), "long-chain")
            ctx.count("long_chains")
    # ---- long runs of ONE operator (more operands than any small-scope case) with a few other operators / brackets in between ----
    for n in ([34, 36, 40, 48, 66] if ctx.quick else [33, 34, 35, 36, 40, 48, 64, 65, 66, 80, 100, 129]):
        for _rep in range(2 if ctx.quick else 4):
            idx += 1
            if not ctx.mine(idx):
                continue
            main = rng.choice(["and", "or", "xor", "then"])
            spell = {"and": rng.choice(G.AND_SP), "or": rng.choice(G.OR_SP), "xor": rng.choice(G.XOR_SP)}
            toks = []
            i = 0
            while i < n:
                if toks:
                    op = main if rng.random() < 0.88 else rng.choice(["and", "or", "xor", "then"])
                    if op != "then":
                        toks.append(spell[op])
                if rng.random() < 0.06 and i + 3 <= n:
                    inner = rng.choice(["and", "or", "xor"])
                    toks += ["(", "[%d]" % (i + 1), spell[inner], "[%d]" % (i + 2), ")"]
                    i += 2
                else:
                    toks.append("[%d]" % (i + 1))
                    i += 1
            check_string(ctx, G.join_tokens(toks, rng if _rep % 2 else None), "long-run")
            ctx.count("long_runs_of_one_operator")
    for depth in ((20, 60) if ctx.quick else (20, 60, 120, 200)):
        idx += 1
        if not ctx.mine(idx):
            continue
        # left- and right-nested: (((([1]U[2])O[3])X[4]) ...   and   [1]U([2]O([3]X(...
        ops = [rng.choice(["U", "O", "X", "∧", "∨", "⊻", ""]) for _ in range(depth)]
        left = "[0]"
        for d, op in enumerate(ops):
            left = "(" + left + op + "[%d]" % (d + 1) + ")"
        right = "[%d]" % depth
        for d, op in enumerate(ops):
            right = "[%d]" % d + op + "(" + right + ")"
        check_string(ctx, left.replace("[0]", "[1]"), "deep-nesting")
        check_string(ctx, right.replace("[0]", "[1]"), "deep-nesting")
        ctx.count("deep_nestings", 2)


async def replay(ctx, phase, case):
    check_string(ctx, case["s"], phase, must_be_wellformed=False)
