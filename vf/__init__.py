"""Runtime-monitoring framework for Hochfrequenz/ahbicht (see /verif/DESIGN.md)."""
