"""
Core of the framework: the per-shard context that checks talk to (counters, samples, distinct
non-trivial cases, violations), JSON helpers and the known-findings classifier.

Verdicts are three-valued: violated / held on what was observed / inconclusive.
"""

import hashlib
import json
import os
import random
import time
from collections import Counter
from typing import Any, Dict, List, Optional

VERIF = os.path.dirname(os.path.dirname(os.path.abspath(__file__)))
EVIDENCE_DIR = os.environ.get("VERIF_EVIDENCE_DIR") or os.path.join(VERIF, "evidence")  # the override is for the mutant self-test only
REPLAY_DIR = os.path.join(EVIDENCE_DIR, "replay")
WORK_DIR = os.path.join(EVIDENCE_DIR, ".work")
KNOWN_FINDINGS = os.path.join(VERIF, "known_findings.json")

MAX_WITNESSES_PER_KIND = 3  # full witnesses kept per violation kind and shard; all are counted
MAX_DISTINCT_TRACKED = 400_000  # per shard; beyond that distinct_nontrivial is a lower bound
MAX_SAMPLES_PER_CLASS = 3


def jsonable(obj: Any) -> Any:
    """best-effort conversion of witnesses/samples to something json.dump accepts"""
    if obj is None or isinstance(obj, (bool, int, float)):
        return obj
    if isinstance(obj, str):
        # surrogates and the like must survive a round trip through a file: store escaped when needed
        try:
            obj.encode("utf-8")
            return obj
        except UnicodeEncodeError:
            return {"__ascii__": obj.encode("unicode_escape").decode("ascii")}
    if isinstance(obj, dict):
        return {str(k) if not isinstance(k, str) else k: jsonable(v) for k, v in obj.items()}
    if isinstance(obj, (list, tuple)):
        return [jsonable(x) for x in obj]
    if isinstance(obj, (set, frozenset)):
        return sorted((jsonable(x) for x in obj), key=repr)
    return repr(obj)


def unjson(obj: Any) -> Any:
    """inverse of jsonable for the escaped-string case"""
    if isinstance(obj, dict):
        if set(obj.keys()) == {"__ascii__"}:
            return obj["__ascii__"].encode("ascii").decode("unicode_escape")
        return {k: unjson(v) for k, v in obj.items()}
    if isinstance(obj, list):
        return [unjson(x) for x in obj]
    return obj


def h64(obj: Any) -> int:
    """stable 64 bit hash of a JSON-able object (PYTHONHASHSEED independent)"""
    data = json.dumps(jsonable(obj), sort_keys=True, ensure_ascii=True, separators=(",", ":")).encode("ascii")
    return int.from_bytes(hashlib.blake2b(data, digest_size=8).digest(), "big")


class Inconclusive(Exception):
    """raised by a check when it cannot decide (never folded into held/violated)"""


class Ctx:
    """what a check module sees while it runs one shard"""

    def __init__(self, pid: str, tier: str, seed: int, shard: int = 0, nshards: int = 1, replaying: bool = False):
        self.pid = pid
        self.tier = tier
        self.seed = seed
        self.shard = shard
        self.nshards = nshards
        self.replaying = replaying
        self.rng = random.Random(f"{pid}/{seed}/{shard}/{nshards}")
        self.counters: Counter = Counter()
        self.distinct: set = set()
        self.distinct_overflow = 0
        self.samples: Dict[str, List[Any]] = {}
        self.violations: List[Dict[str, Any]] = []
        self.violation_counts: Counter = Counter()
        self.notes: Dict[str, Any] = {}
        self.t0 = time.time()
        self.crng = self.rng
        self.phase: Optional[str] = None
        self.case: Any = None

    # ---- budgets -------------------------------------------------------------------------------
    @property
    def quick(self) -> bool:
        return self.tier == "quick"

    def budget(self, quick: int, thorough: int) -> int:
        """number of cases this shard should run when the whole run should do `quick`/`thorough` cases"""
        total = quick if self.tier == "quick" else thorough
        base, rest = divmod(total, self.nshards)
        return base + (1 if self.shard < rest else 0)

    def mine(self, index: int) -> bool:
        """for enumerated (non random) work: is item `index` this shard's job?"""
        return index % self.nshards == self.shard

    # ---- bookkeeping ---------------------------------------------------------------------------
    def count(self, name: str, n: int = 1) -> None:
        self.counters[name] += n

    def evaluation(self, n: int = 1) -> None:
        self.counters["evaluations"] += n

    def nontrivial(self, key: Any) -> None:
        """register one non-trivial case; distinctness is decided on the key's stable hash"""
        if len(self.distinct) >= MAX_DISTINCT_TRACKED:
            self.distinct_overflow += 1
            return
        self.distinct.add(h64(key))

    def sample(self, obj: Any, cls: str = "case") -> None:
        lst = self.samples.setdefault(cls, [])
        if len(lst) < MAX_SAMPLES_PER_CLASS:
            lst.append(jsonable(obj))

    def note(self, key: str, value: Any) -> None:
        self.notes[key] = jsonable(value)

    def case_rng(self, case: Dict[str, Any]) -> random.Random:
        """randomness used INSIDE the judgement of one case (schedules, sampled assignments, ...) comes from a seed stored in the case itself,
        so that `--replay` re-runs exactly the same thing"""
        seed = case.setdefault("rng_seed", self.rng.randrange(1 << 30))
        self.crng = random.Random(f"case/{seed}")
        return self.crng

    def set_case(self, phase: str, case: Any) -> None:
        self.phase = phase
        self.case = case

    def violation(self, kind: str, message: str, extra: Any = None, phase: Optional[str] = None, case: Any = None) -> None:
        """
        kind: the *mechanism* (stable, no random values) - it is what known_findings.json is keyed on.
        The current (phase, case) is stored so that `./check <ID> --replay <file>` can re-run it.
        """
        self.violation_counts[kind] += 1
        if self.violation_counts[kind] <= MAX_WITNESSES_PER_KIND:
            self.violations.append(
                {
                    "property": self.pid,
                    "kind": kind,
                    "message": message,
                    "phase": phase if phase is not None else self.phase,
                    "case": jsonable(case if case is not None else self.case),
                    "extra": jsonable(extra),
                    "tier": self.tier,
                    "seed": self.seed,
                    "shard": f"{self.shard}/{self.nshards}",
                    "interpreter_mode": os.environ.get("VERIF_SHARD_MODE", "plain"),
                    "hash_seed": os.environ.get("PYTHONHASHSEED", "0"),
                }
            )

    # ---- result --------------------------------------------------------------------------------
    def result(self) -> Dict[str, Any]:
        return {
            "counters": dict(self.counters),
            "distinct": sorted(self.distinct),
            "distinct_overflow": self.distinct_overflow,
            "samples": self.samples,
            "violations": self.violations,
            "violation_counts": dict(self.violation_counts),
            "notes": self.notes,
            "wall_s": time.time() - self.t0,
        }


def load_known_findings() -> Dict[str, List[Dict[str, Any]]]:
    """never written at run time"""
    try:
        with open(KNOWN_FINDINGS, encoding="utf-8") as f:
            data = json.load(f)
    except FileNotFoundError:
        return {"open": [], "fixed": []}
    return {"open": data.get("open", []), "fixed": data.get("fixed", [])}


def matching_open_finding(violation: Dict[str, Any], known: Dict[str, List[Dict[str, Any]]]) -> Optional[Dict[str, Any]]:
    """an *open* finding suppresses exactly the violations of its property with its mechanism (kind)"""
    for entry in known["open"]:
        if entry.get("property") == violation["property"] and entry.get("kind") == violation["kind"]:
            return entry
    return None
