"""
Makes sure that `import ahbicht` resolves to $VERIF_REPO/src (default /repo/src), i.e. to the *current
working tree* of the repository under verification, and works around the package's import cycle.
Import this module before anything from ahbicht.
"""

import logging
import os
import sys

REPO = os.path.abspath(os.environ.get("VERIF_REPO", "/repo"))
SRC = os.path.join(REPO, "src")

if not os.path.isdir(os.path.join(SRC, "ahbicht")):
    print(f"INCONCLUSIVE reason=no ahbicht sources under {SRC}")
    sys.exit(2)

sys.path.insert(0, SRC)
# the guard for (currently not existing) hooks inside the repository; harmless when nothing reads it
os.environ.setdefault("AHBICHT_VERIF", "1")

# the order matters: ahbicht.content_evaluation has to be imported before anything that pulls in
# ahbicht.expressions.expression_resolver (circular import otherwise)
import ahbicht  # noqa: E402
import ahbicht.content_evaluation  # noqa: E402,F401

_origin = os.path.abspath(ahbicht.__file__)
if not _origin.startswith(SRC + os.sep):
    print(f"INCONCLUSIVE reason=ahbicht imported from {_origin}, expected below {SRC}")
    sys.exit(2)

# ahbicht logs every parse/evaluation at DEBUG level on loggers it sets to DEBUG itself; silence the handlers
logging.getLogger().setLevel(logging.CRITICAL)
logging.disable(logging.CRITICAL)
