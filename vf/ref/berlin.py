"""
German local time (CET/CEST by the EU rule, in force since 1996) on integer epoch seconds.
No datetime.astimezone, no pytz, no zoneinfo: days-from-civil arithmetic only.

CEST iff  last Sunday of March 01:00 UTC <= t < last Sunday of October 01:00 UTC.
"""

from typing import Tuple


def days_from_civil(y: int, m: int, d: int) -> int:
    """days since 1970-01-01 of the proleptic Gregorian date y-m-d"""
    y -= m <= 2
    era = (y if y >= 0 else y - 399) // 400
    yoe = y - era * 400
    doy = (153 * (m + (-3 if m > 2 else 9)) + 2) // 5 + d - 1
    doe = yoe * 365 + yoe // 4 - yoe // 100 + doy
    return era * 146097 + doe - 719468


def civil_from_days(z: int) -> Tuple[int, int, int]:
    z += 719468
    era = (z if z >= 0 else z - 146096) // 146097
    doe = z - era * 146097
    yoe = (doe - doe // 1460 + doe // 36524 - doe // 146096) // 365
    y = yoe + era * 400
    doy = doe - (365 * yoe + yoe // 4 - yoe // 100)
    mp = (5 * doy + 2) // 153
    d = doy - (153 * mp + 2) // 5 + 1
    m = mp + (3 if mp < 10 else -9)
    return (y + (m <= 2), m, d)


def last_sunday(y: int, m: int) -> int:
    """day number of the last Sunday of March / October (both have 31 days)"""
    d = days_from_civil(y, m, 31)
    wd = (d + 4) % 7  # 1970-01-01 was a Thursday; 0 = Sunday
    return d - wd


def dst_bounds(y: int) -> Tuple[int, int]:
    """[start, end) of CEST in year y, epoch seconds"""
    return last_sunday(y, 3) * 86400 + 3600, last_sunday(y, 10) * 86400 + 3600


def berlin_offset(t: int) -> int:
    """UTC offset of German local time at instant t (valid for 1996 onwards: the EU rule)"""
    y = civil_from_days(t // 86400)[0]
    start, end = dst_bounds(y)
    return 7200 if start <= t < end else 3600


def local_seconds_of_day(t: int) -> int:
    return (t + berlin_offset(t)) % 86400


def fmt(t: int, off: int, sep: str = "T", z: bool = False, frac: str = "", neg_zero: bool = False, basic: bool = False, offset_style: str = "colon") -> str:
    """ISO-8601 notation of instant t written with UTC offset `off` seconds.
    basic: YYYYMMDDTHHMMSS (no dashes / colons); offset_style: colon (+01:00) | nocolon (+0100) | hours (+01, only for whole hours)"""
    lt = t + off
    d, s = divmod(lt, 86400)
    y, m, dd = civil_from_days(d)
    h, r = divmod(s, 3600)
    mi, se = divmod(r, 60)
    if z:
        o = "Z"
    else:
        sign = "-" if (off < 0 or (off == 0 and neg_zero)) else "+"
        a = abs(off)
        oh, orr = divmod(a, 3600)
        om, osec = divmod(orr, 60)
        if offset_style == "hours" and om == 0 and osec == 0:
            o = "%s%02d" % (sign, oh)
        elif offset_style == "nocolon" and osec == 0:
            o = "%s%02d%02d" % (sign, oh, om)
        else:
            o = "%s%02d:%02d" % (sign, oh, om) + (":%02d" % osec if osec else "")
    if basic:
        return "%04d%02d%02dT%02d%02d%02d%s%s" % (y, m, dd, h, mi, se, frac, o)
    return "%04d-%02d-%02d%s%02d:%02d:%02d%s%s" % (y, m, dd, sep, h, mi, se, frac, o)


T_1996 = days_from_civil(1996, 1, 1) * 86400
T_2038 = days_from_civil(2038, 1, 1) * 86400
