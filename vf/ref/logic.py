"""
Reference semantics, written from README.rst and the property statements. Shares no code with ahbicht:
states are the plain strings "F" (FULFILLED), "U" (UNFULFILLED), "K" (UNKNOWN), "N" (NEUTRAL).
"""

from itertools import product
from typing import Dict, List, Optional

from vf.gen.expr import has_rc, is_leaf, then_parts

F, U, K, N = "F", "U", "K", "N"
STATES = [F, U, K, N]
NAME = {F: "FULFILLED", U: "UNFULFILLED", K: "UNKNOWN", N: "NEUTRAL"}
FROM_NAME = {v: k for k, v in NAME.items()}

# ---- the three tables, literally (rows: left operand, columns: right operand) ---------------------------
#               F  U  K  N
AND_TABLE = {
    F: {F: F, U: U, K: K, N: F},
    U: {F: U, U: U, K: U, N: U},
    K: {F: K, U: U, K: K, N: K},
    N: {F: F, U: U, K: K, N: N},
}
OR_TABLE = {
    F: {F: F, U: F, K: F, N: F},
    U: {F: F, U: U, K: K, N: U},
    K: {F: F, U: K, K: K, N: K},
    N: {F: F, U: U, K: K, N: N},
}
XOR_TABLE = {
    F: {F: U, U: F, K: K, N: F},
    U: {F: F, U: U, K: K, N: U},
    K: {F: K, U: K, K: K, N: K},
    N: {F: F, U: U, K: K, N: N},
}
TABLES = {"and": AND_TABLE, "or": OR_TABLE, "xor": XOR_TABLE}


def apply(op: str, a: str, b: str) -> str:
    return TABLES[op][a][b]


def ref_eval(t, asg: Dict[str, str]) -> str:
    """recursive application of the four-valued operators; hints / format constraints are NEUTRAL;
    a juxtaposed format constraint leaves the state of its partner unchanged"""
    k = t[0]
    if k == "rc":
        return asg[t[1]]
    if k in ("hint", "fc"):
        return N
    if k == "then":
        operand, _fc, _left = then_parts(t)
        return ref_eval(operand, asg)
    return apply(k, ref_eval(t[1], asg), ref_eval(t[2], asg))


OUTCOME = {F: (True, True), N: (True, False), U: (False, True), K: (None, None)}
"""state -> (requirement_constraints_fulfilled, requirement_is_conditional)  (C04)"""


def only_neutral(t) -> bool:
    """built from hints and format constraints alone"""
    return not has_rc(t)


def structurally_invalid(t) -> bool:
    """C06: invalid exactly if some O/X composition combines an only-NEUTRAL operand with an operand carrying a
    requirement constraint, or directly combines a single hint with a single format constraint"""
    if is_leaf(t):
        return False
    if t[0] == "then":
        operand, _fc, _left = then_parts(t)
        return structurally_invalid(operand)
    if structurally_invalid(t[1]) or structurally_invalid(t[2]):
        return True
    if t[0] in ("or", "xor"):
        if has_rc(t[1]) != has_rc(t[2]):
            return True
        if {t[1][0], t[2][0]} == {"hint", "fc"}:
            return True
    return False


def in_eval_domain(t) -> bool:
    """juxtaposition attaches a single format-constraint key to a hint leaf or to an operand containing a requirement constraint"""
    if is_leaf(t):
        return t[0] in ("rc", "hint", "fc")
    if t[0] == "then":
        try:
            operand, _fc, _left = then_parts(t)
        except ValueError:
            return False
        if operand[0] == "fc":
            return False
        if operand[0] != "hint" and not has_rc(operand):
            return False
        return in_eval_domain(operand)
    return in_eval_domain(t[1]) and in_eval_domain(t[2])


# ---- C07: collected format constraint expression ---------------------------------------------------------
def ref_fc(t, asg: Dict[str, str], strict_drop: bool = True):
    """
    Boolean AST over format-constraint keys (("k", key) / (op, a, b)) or None:
    an attached format constraint takes part only if the operand it is attached to is FULFILLED (or is a hint);
    sub-expressions contributing nothing are omitted.
    strict_drop: what happens to format constraints collected *inside* a non-fulfilled operand of a juxtaposition -
    True: dropped together with the attached key (what the code does), False: they survive. The statement is silent
    here; callers accept both readings where they differ.
    """
    k = t[0]
    if k == "fc":
        return ("k", t[1])
    if k in ("rc", "hint"):
        return None
    if k == "then":
        operand, fc, _left = then_parts(t)
        state = ref_eval(operand, asg)
        inner = ref_fc(operand, asg, strict_drop)
        if state == F or operand[0] == "hint":
            return ("k", fc[1]) if inner is None else ("and", ("k", fc[1]), inner)
        return None if strict_drop else inner
    a = ref_fc(t[1], asg, strict_drop)
    b = ref_fc(t[2], asg, strict_drop)
    if a is None:
        return b
    if b is None:
        return a
    return (k, a, b)


def bool_eval(e, fa: Dict[str, bool]) -> bool:
    if e[0] == "k":
        return fa[e[1]]
    a = bool_eval(e[1], fa)
    b = bool_eval(e[2], fa)
    if e[0] == "and":
        return a and b
    if e[0] == "or":
        return a or b
    return a != b


def bool_keys(e, acc=None) -> List[str]:
    if acc is None:
        acc = []
    if e is None:
        return acc
    if e[0] == "k":
        if e[1] not in acc:
            acc.append(e[1])
    else:
        bool_keys(e[1], acc)
        bool_keys(e[2], acc)
    return acc


def ast_bool(t, fa: Dict[str, bool]) -> bool:
    """Boolean value of a G-fc AST (C08)"""
    if t[0] == "fc":
        return fa[t[1]]
    a = ast_bool(t[1], fa)
    b = ast_bool(t[2], fa)
    if t[0] == "and":
        return a and b
    if t[0] == "or":
        return a or b
    return a != b


def assignments(keys: List[str], values=(F, U, K)):
    for combo in product(values, repeat=len(keys)):
        yield dict(zip(keys, combo))


def bool_assignments(keys: List[str]):
    for combo in product((True, False), repeat=len(keys)):
        yield dict(zip(keys, combo))


def refinements(asg: Dict[str, str]):
    """all ways of resolving the UNKNOWN entries of an assignment to FULFILLED / UNFULFILLED"""
    unknown = [k for k, v in asg.items() if v == K]
    for combo in product((F, U), repeat=len(unknown)):
        r = dict(asg)
        r.update(zip(unknown, combo))
        yield r
