"""
Reference validator on tree specs (vf/gen/tree.py), written from the property statements C13 / C16 / C17 and the tables in
validation.py's docstrings. Own outcomes come from the reference evaluator (vf/ref/logic.py) on the generator's ASTs.
"""

from typing import Dict, List, Optional, Tuple

from vf.gen.tree import plain_parts
from vf.ref import logic

REQUIRED, OPTIONAL, FORBIDDEN = "IS_REQUIRED", "IS_OPTIONAL", "IS_FORBIDDEN"


class ExpectNotImplemented(Exception):
    """the documented behaviour for this run is a NotImplementedError (a visited MUSS / prefix-operator node has an undetermined outcome)"""


def ref_ahb(parts, asg) -> object:
    """(indicator, fulfilled: True / False / None) of the deciding part, or "INVALID" if some part is structurally invalid"""
    outcomes = []
    for ind, cond in parts:
        if cond is None:
            outcomes.append((ind, True))
            continue
        if logic.structurally_invalid(cond):
            return "INVALID"
        outcomes.append((ind, logic.OUTCOME[logic.ref_eval(cond, asg)][0]))
    for o in outcomes:
        if o[1]:
            return o
    return outcomes[-1]


def ref_map(ind: str, fulfilled, soll: bool) -> str:
    """requirement indicator x requirement outcome -> status (documented mapping)"""
    if ind == "SOLL":
        ind = "MUSS" if soll else "KANN"
    if fulfilled is False:
        return FORBIDDEN
    if fulfilled is None:
        if ind in ("MUSS", "X", "O", "U"):
            raise ExpectNotImplemented()
        return OPTIONAL
    return REQUIRED if ind in ("MUSS", "X", "O", "U") else OPTIONAL


def ref_combine(parent: Optional[str], child: str) -> str:
    """the documented parent/child table: below an optional node nothing is required, below a required node the own status is kept"""
    if parent in (None, REQUIRED):
        return child
    if child == REQUIRED:
        return OPTIONAL
    return child


def ref_pool(entries, asg) -> List[str]:
    """offered qualifiers in pool order: a single-entry pool always offers its entry; an invalid entry is treated as selectable"""
    if len(entries) == 1:
        return [entries[0]["q"]]
    offered = []
    for e in entries:
        r = ref_ahb(plain_parts(e["x"]), asg)
        if (r == "INVALID" or r[1]) and e["q"] not in offered:  # a qualifier listed more than once is offered (once) if one of its entries is admissible
            offered.append(e["q"])
    return offered


def ref_validate(spec, asg: Dict[str, str], soll: bool) -> List[Tuple[str, str, Optional[List[str]], Optional[bool]]]:
    """
    [(discriminator, status, offered | None, format flag | None)] in document order. status for pools is "*_AND_FILLED" /
    "*_AND_EMPTY" (the required/optional prefix of an accepted value is not fixed by the properties) or IS_FORBIDDEN.
    Raises ExpectNotImplemented where C13 documents a NotImplementedError for the whole run.
    """
    out = []

    def level(x, parent):
        r = ref_ahb(plain_parts(x), asg)
        if r == "INVALID":
            return OPTIONAL
        return ref_combine(parent, ref_map(r[0], r[1], soll))

    def data_element(d, seg_status):
        if d["k"] == "F":
            name = None if d.get("nod") else d["d"]  # "nod": the element has no discriminator (maus: "None if the data element was not found in the MIG")
            r = ref_ahb(plain_parts(d["x"]), asg)
            if r == "INVALID":
                out.append((name, "IS_OPTIONAL?", None, None))  # C16: reported optional; the suffix rule speaks of valid nodes
                return
            status = ref_combine(seg_status, ref_map(r[0], r[1], soll)) + ("_AND_FILLED" if d["input"] else "_AND_EMPTY")
            out.append((name, status, None, None))
            return
        offered = ref_pool(d["entries"], asg)
        if not offered:
            out.append((d["d"], FORBIDDEN, offered, True))
        elif d["input"] in offered:
            out.append((d["d"], "*_AND_FILLED", offered, True))
        elif d["input"]:
            out.append((d["d"], "*_AND_EMPTY", offered, False))
        else:
            out.append((d["d"], "*_AND_EMPTY", offered, True))

    def segment(s, parent):
        status = FORBIDDEN if parent == FORBIDDEN else level(s["x"], parent)
        out.append((s["d"], status, None, None))
        if status != FORBIDDEN:
            for d in s["des"]:
                data_element(d, status)

    def group(g, parent):
        status = FORBIDDEN if parent == FORBIDDEN else level(g["x"], parent)
        out.append((g["d"], status, None, None))
        if status != FORBIDDEN:
            for x in g["grps"]:
                group(x, status)
            for s in g["segs"]:
                segment(s, status)

    for g in spec:
        group(g, None)
    return out


def status_matches(got: str, expected: str) -> bool:
    if expected.startswith("*"):
        return got.endswith(expected[1:])
    if expected.endswith("?"):
        return got.startswith(expected[:-1])
    return got == expected
