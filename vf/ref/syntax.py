"""
Reference syntax, written from the documentation (README, grammar comments, property statements) - a hand written
character-level lexer, a precedence-climbing parser and three-valued recognisers. Shares no code with ahbicht / lark.

Verdicts:  ACC  the documentation says: well-formed            -> the real parser must produce a tree
           REJ  the documentation says: malformed              -> the real parser must raise SyntaxError
           UNS  a corner the documentation does not settle     -> only "tree or SyntaxError, nothing else" is demanded
"""

import re
import sys
from typing import List, Optional, Tuple

import functools


def _own_recursion(fn):
    """the reference parser / matcher recurse on the nesting of the expression: they get a higher recursion limit for the duration of
    THEIR call only - the limit is an input of the code under test as well (deep copies, recursive transformers) and stays what the
    process has"""

    @functools.wraps(fn)
    def wrapper(*args, **kwargs):
        old = sys.getrecursionlimit()
        if old >= 20000:
            return fn(*args, **kwargs)
        sys.setrecursionlimit(20000)
        try:
            return fn(*args, **kwargs)
        finally:
            sys.setrecursionlimit(old)

    return wrapper


ACC, REJ, UNS = "ACCEPT", "REJECT", "UNSPECIFIED"

WS_CORE = " \t\f\r\n"
OPS = {"U": "and", "u": "and", "∧": "and", "O": "or", "o": "or", "∨": "or", "X": "xor", "x": "xor", "⊻": "xor"}
LEVELS = ["or", "xor", "and", "then"]  # loosest first

_INT = re.compile(r"[0-9]+\Z")
_PKG = re.compile(r"([0-9]+)P\Z")
_PKG_REP = re.compile(r"([0-9]+)P([ \t\f\r\n]*)([0-9]+)\.\.([0-9]+)\Z")
_UB = re.compile(r"UB[123]\Z")


def _is_other_space(ch: str) -> bool:
    return ch.isspace() and ch not in WS_CORE


def lex(s: str) -> Tuple[Optional[List[tuple]], bool]:
    """
    tokens: ("(",) (")",) ("op", kind, spelling) ("atom", kind, key, repeatability|None) - or None for a lexical error.
    Second component: an unspecified corner was met (the verdict can then only be UNS or REJ).
    """
    out: List[tuple] = []
    uns = False
    i, n = 0, len(s)
    while i < n:
        c = s[i]
        if c in WS_CORE:
            i += 1
            continue
        if _is_other_space(c):
            # vertical tab, NBSP, ... : "whitespace" in Python's sense, not in the grammar's
            uns = True
            i += 1
            continue
        if c == "(" or c == ")":
            out.append((c,))
            i += 1
            continue
        if c in OPS:
            out.append(("op", OPS[c], c))
            i += 1
            continue
        if c == "[":
            j = s.find("]", i)
            if j < 0:
                return None, uns
            raw = s[i + 1 : j]
            if any(_is_other_space(ch) for ch in raw):
                uns = True
            inner = raw.strip(WS_CORE + "".join(ch for ch in raw if _is_other_space(ch)))
            atom = None
            if _INT.match(inner):
                if (inner.startswith("0") and len(inner) > 1) or int(inner) == 0:
                    uns = True  # leading zeros / key 0
                atom = ("atom", "condition", inner, None)
            elif _UB.match(inner):
                atom = ("atom", "time_condition", inner, None)
            elif _PKG.match(inner):
                key = _PKG.match(inner).group(1)
                if key.startswith("0") and len(key) > 1:
                    uns = True
                atom = ("atom", "package", key + "P", None)
            elif _PKG_REP.match(inner):
                key, gap, a, b = _PKG_REP.match(inner).groups()
                if gap:
                    uns = True  # whitespace between package key and repeatability
                if (key.startswith("0") and len(key) > 1) or (a.startswith("0") and len(a) > 1) or b.startswith("0") or int(a) > int(b) or int(b) == 0:
                    uns = True
                atom = ("atom", "package", key + "P", f"{a}..{b}")
            else:
                return None, uns
            out.append(atom)
            i = j + 1
            continue
        return None, uns
    return out, uns


class _Parser:
    def __init__(self, toks):
        self.toks = toks
        self.pos = 0

    def peek(self):
        return self.toks[self.pos] if self.pos < len(self.toks) else None

    def primary(self):
        t = self.peek()
        if t is None:
            return None
        if t[0] == "atom":
            self.pos += 1
            return t
        if t[0] == "(":
            self.pos += 1
            inner = self.level(0)
            if inner is None:
                return None
            t2 = self.peek()
            if t2 is None or t2[0] != ")":
                return None
            self.pos += 1
            return ("grp", inner)
        return None

    def level(self, li):
        """n-ary node per run of one operator; LEVELS[li] is the operator of this level"""
        if li == 3:  # juxtaposition: primary primary*
            items = [self.primary()]
            if items[0] is None:
                return None
            while True:
                t = self.peek()
                if t is None or t[0] not in ("atom", "("):
                    break
                nxt = self.primary()
                if nxt is None:
                    return None
                items.append(nxt)
            return items[0] if len(items) == 1 else ("run", "then", items)
        op = LEVELS[li]
        items = [self.level(li + 1)]
        if items[0] is None:
            return None
        while True:
            t = self.peek()
            if t is None or t[0] != "op" or t[1] != op:
                break
            self.pos += 1
            nxt = self.level(li + 1)
            if nxt is None:
                return None
            items.append(nxt)
        return items[0] if len(items) == 1 else ("run", op, items)


@_own_recursion
def parse(s: str):
    """(verdict, reference tree | None)"""
    toks, uns = lex(s)
    if toks is None or not toks:
        return REJ, None
    p = _Parser(toks)
    tree = p.level(0)
    if tree is None or p.pos != len(toks):
        return REJ, None
    return (UNS if uns else ACC), tree


@_own_recursion
def cond_verdict(s: str) -> str:
    return parse(s)[0]


# ---- matching a lark tree (canonical form, see vf/canon.py) against a reference tree -------------------------------------
COMPOSITION = {"and": "and_composition", "or": "or_composition", "xor": "xor_composition", "then": "then_also_composition"}


@_own_recursion
def matches(c, ref) -> bool:
    """
    c: canonical lark tree. A lark (binary) tree matches an n-ary run iff it is SOME binarisation of it - literally "only the grouping
    inside a run of one and the same operator is unspecified". Explicit brackets are honoured: a bracket group is one item of the
    surrounding run and must be matched as a whole.
    """
    if ref[0] == "grp":
        return matches(c, ref[1])
    if ref[0] == "atom":
        _a, kind, key, rep = ref
        if c[0] != "T" or c[1] != kind:
            return False
        kids = c[2]
        if kind == "condition":
            return kids == [["t", "CONDITION_KEY", key]]
        if kind == "time_condition":
            return kids == [["t", "TIME_CONDITION_KEY", key]]
        want = [["t", "PACKAGE_KEY", key]] + ([["t", "REPEATABILITY", rep]] if rep else [])
        return kids == want
    _r, op, items = ref
    return _match_run(c, op, items, 0, len(items), {})


def _match_run(c, op, items, i, j, memo) -> bool:
    if j - i == 1:
        return matches(c, items[i])
    key = (id(c), i, j)
    if key in memo:
        return memo[key]
    ok = False
    if c[0] == "T" and c[1] == COMPOSITION[op] and len(c[2]) == 2:
        left, right = c[2]
        for k in range(i + 1, j):
            if _match_run(left, op, items, i, k, memo) and _match_run(right, op, items, k, j, memo):
                ok = True
                break
    memo[key] = ok
    return ok


@_own_recursion
def show_ref(ref) -> str:
    if ref[0] == "atom":
        return "[" + ref[2] + (ref[3] or "") + "]"
    if ref[0] == "grp":
        return "(" + show_ref(ref[1]) + ")"
    sep = {"and": " U ", "or": " O ", "xor": " X ", "then": " "}[ref[1]]
    return "{" + sep.join(show_ref(x) for x in ref[2]) + "}"


@_own_recursion
def ops_in(ref, acc=None) -> set:
    if acc is None:
        acc = set()
    if ref[0] == "grp":
        acc.add("grp")
        ops_in(ref[1], acc)
    elif ref[0] == "run":
        acc.add(ref[1])
        for x in ref[2]:
            ops_in(x, acc)
    return acc


@_own_recursion
def strip_redundant_groups(ref):
    """
    The reference tree with every *redundant* bracket group removed: a group is redundant if dropping it leaves the n-ary
    tree unchanged, i.e. its content is an atom or another group, or a run whose operator binds tighter than (or is different from and not
    looser than) the surrounding run's. `([1]U[2])U[3]` is NOT redundant: it fixes an association.
    """
    return _strip(ref, None)


def _tightness(op: Optional[str]) -> int:
    return -1 if op is None else LEVELS.index(op)


def _strip(ref, parent_op):
    if ref[0] == "atom":
        return ref
    if ref[0] == "run":
        return ("run", ref[1], [_strip(x, ref[1]) for x in ref[2]])
    inner = ref[1]
    while inner[0] == "grp":
        inner = inner[1]
    if inner[0] == "atom":
        return inner
    # inner is a run
    stripped = ("run", inner[1], [_strip(x, inner[1]) for x in inner[2]])
    if parent_op is None or _tightness(inner[1]) > _tightness(parent_op):
        return stripped  # whole expression, or a tighter-binding run inside a looser one: brackets change nothing
    return ("grp", stripped)


# ---- AHB expressions ----------------------------------------------------------------------------------------------------------
MODAL_SPELLINGS = ["muss", "soll", "kann", "m", "s", "k"]
MODAL_OF = {"muss": "MUSS", "m": "MUSS", "soll": "SOLL", "s": "SOLL", "kann": "KANN", "k": "KANN"}
PREFIX_CHARS = "XOUxou"
_COND_CLASS = re.compile(r"[\[\]\(\)UuOoXx∧∨⊻0-9Pp\.Bb \t\f\r\n]*\Z")


@_own_recursion
def split_ahb(s: str):
    """
    (verdict, parts) for the documented AHB forms; parts = [(indicator spelling, condition text | None)].
      one or more modal-mark parts (mark + condition expression), optionally ending in a bare mark
      | one prefix-operator part | a bare indicator
    Corners left open by the documentation give UNS: whitespace before the first indicator or next to a bare indicator, a part whose
    condition text is only whitespace.
    """
    if not s:
        return REJ, None
    if not s.isascii() and not all(ch.isascii() or ch in "∧∨⊻" or ch.isspace() for ch in s):
        return REJ, None
    if s[0] in PREFIX_CHARS:
        rest = s[1:]
        if rest == "":
            return ACC, [(s[0], None)]
        if rest.strip(WS_CORE) == "":
            return UNS, None
        if not _COND_CLASS.match(rest):
            return REJ, None
        v = cond_verdict(rest)
        return v, ([(s[0], rest)] if v != REJ else None)
    low = s.lower()
    parts = []
    i = 0
    uns = False
    while i < len(s):
        mark = None
        for sp in ("muss", "soll", "kann", "m", "s", "k"):
            if low.startswith(sp, i):
                mark = s[i : i + len(sp)]
                break
        if mark is None:
            return REJ, None
        i += len(mark)
        j = i
        while j < len(s) and s[j] not in "mskMSK":
            j += 1
        cond = s[i:j]
        if cond == "":
            if j != len(s):
                return REJ, None  # a bare mark can only be the last part
            parts.append((mark, None))
            break
        if cond.strip(WS_CORE) == "" or any(_is_other_space(ch) for ch in cond):
            uns = True
        parts.append((mark, cond))
        i = j
    verdict = ACC
    for _mark, cond in parts:
        if cond is None:
            continue
        if not all(ch in "[]()UuOoXx∧∨⊻0123456789Pp.Bb" or ch.isspace() for ch in cond):
            return REJ, None
        v = cond_verdict(cond)
        if v == REJ:
            if cond.strip(WS_CORE) == "" or uns:
                # "Muss " (mark + whitespace): the documentation does not say whether that is a bare mark
                return UNS, None
            # a trailing prefix-operator letter may be read as a bare indicator by the grammar ("Muss[1]X"): not settled either
            stripped = cond.rstrip(WS_CORE)
            if stripped and stripped[-1] in PREFIX_CHARS and cond_verdict(stripped[:-1]) != REJ and parts[-1][1] is cond:
                return UNS, None
            return REJ, None
        if v == UNS:
            verdict = UNS
    if uns:
        verdict = UNS
    return verdict, parts


@_own_recursion
def resolver_verdict(s: str) -> str:
    """the combined expression resolver accepts AHB expressions and bare condition expressions"""
    c = cond_verdict(s)
    if c == ACC:
        return ACC
    a = split_ahb(s)[0]
    if a == ACC:
        return ACC
    if c == UNS or a == UNS:
        return UNS
    # leading whitespace (of any kind: what str.lstrip() removes) before an AHB expression: the AHB grammar has no place for it, the
    # documentation is silent - an implementation that strips it first is as good as one that refuses it
    stripped = s.lstrip()
    if stripped != s and stripped and split_ahb(stripped)[0] != REJ:
        return UNS
    return REJ
