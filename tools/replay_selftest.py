#!/venv/bin/python
"""
For one seeded change per property: run the quick check against a scratch copy with the change applied, take the first replay file and
re-run it (a) against the changed copy - must reproduce (exit 1, VIOLATION line) - and (b) against the unchanged tree - must not (exit 0).
Validates `./check <ID> --replay <file>` for every check.   tools/replay_selftest.py [--only C13]
"""
import glob
import json
import os
import re
import shutil
import subprocess
import sys
import tempfile

VERIF = os.path.dirname(os.path.dirname(os.path.abspath(__file__)))


def main():
    only = sys.argv[2] if len(sys.argv) > 2 and sys.argv[1] == "--only" else ""
    bad = 0
    seen = set()
    for meta_path in sorted(glob.glob(os.path.join(VERIF, "seeded", "*", "meta.json"))):
        meta = json.load(open(meta_path))
        pid = (meta.get("checks") or [meta["property"]])[0]
        if pid in seen or only not in pid:
            continue
        seen.add(pid)
        scratch = tempfile.mkdtemp(prefix="vf-replay-")
        evdir = tempfile.mkdtemp(prefix="vf-ev-")
        try:
            copy = os.path.join(scratch, "repo")
            subprocess.run(["rsync", "-a", "--exclude", ".git", "--exclude", "__pycache__", "/repo/", copy + "/"], check=True)
            subprocess.run(["patch", "-p1", "-s", "-i", os.path.join(os.path.dirname(meta_path), "patch.diff")], cwd=copy, check=True)
            env = dict(os.environ, VERIF_REPO=copy, VERIF_EVIDENCE_DIR=evdir, VERIF_PARALLEL="4")
            run = subprocess.run([os.path.join(VERIF, "check"), pid, "quick"], cwd=VERIF, env=env, capture_output=True, text=True)
            m = re.search(r"VIOLATION property=\S+ replay=(\S+)", run.stdout)
            if not m:
                print(f"{pid} ({meta['id']}): no violation to replay (exit {run.returncode})")
                bad += 1
                continue
            replay = m.group(1)
            a = subprocess.run([os.path.join(VERIF, "check"), pid, "--replay", replay], cwd=VERIF, env=env, capture_output=True, text=True)
            b = subprocess.run([os.path.join(VERIF, "check"), pid, "--replay", replay], cwd=VERIF, env=dict(os.environ, VERIF_EVIDENCE_DIR=evdir), capture_output=True, text=True)
            ok = a.returncode == 1 and "VIOLATION" in a.stdout and b.returncode == 0
            bad += 0 if ok else 1
            print(f"{pid} ({meta['id']}): replay on the changed copy exit {a.returncode}, on the unchanged tree exit {b.returncode} {'ok' if ok else '!! ' + (a.stdout + a.stderr)[-300:] + ' // ' + (b.stdout + b.stderr)[-300:]}")
        finally:
            shutil.rmtree(scratch, ignore_errors=True)
            shutil.rmtree(evdir, ignore_errors=True)
    print("replay selftest:", "all ok" if not bad else f"{bad} problems")
    return 1 if bad else 0


if __name__ == "__main__":
    sys.exit(main())
