#!/usr/bin/env python3-vt
"""validates evidence/*.json against the evidence schema (run with python3-vt, which has jsonschema)"""
import glob
import json
import os
import sys

import jsonschema

here = os.path.dirname(os.path.dirname(os.path.abspath(__file__)))
schema = json.load(open("/root/.vp/EVIDENCE.schema.json"))
bad = 0
for path in sorted(glob.glob(os.path.join(here, "evidence", "C*.json"))):
    try:
        jsonschema.validate(json.load(open(path)), schema)
        print("valid  ", os.path.basename(path))
    except Exception as exc:  # pylint:disable=broad-except
        bad += 1
        print("INVALID", os.path.basename(path), str(exc)[:300])
sys.exit(1 if bad else 0)
