#!/venv/bin/python
"""
Sensitivity self-test: every patch under vf/selftest/mutants/ (and every seeded change under seeded/*/patch.diff) is applied to a
scratch copy of /repo's working tree, the pinned test suite is run on it (a mutant that fails it is not "realistic"), then the
checks named for it are run with VERIF_REPO pointing at the copy; they must exit 1 with a VIOLATION line. Negative controls
(names starting with ok_) must leave the checks silent.

    tools/selftest.py [--tier quick] [--only substring] [--skip-tests] [--jobs N]

Expectations live in vf/selftest/expect.json: {"<mutant name>": ["C03", ...]}; for seeded changes in seeded/<id>/meta.json ("property").
Scratch copies live under /tmp and are removed after each mutant.
"""
import argparse
import json
import os
import shutil
import subprocess
import sys
import tempfile
from concurrent.futures import ThreadPoolExecutor

VERIF = os.path.dirname(os.path.dirname(os.path.abspath(__file__)))
REPO = "/repo"
NEGATIVE = set()  # seeded changes that do NOT break their property as stated (meta.json "negative_control"): the checks must stay silent


def run_one(name, patch, props, args):
    scratch = tempfile.mkdtemp(prefix="vf-mut-")
    evdir = tempfile.mkdtemp(prefix="vf-ev-")
    res = {"name": name, "props": props, "tests": None, "checks": {}}
    try:
        copy = os.path.join(scratch, "repo")
        subprocess.run(["rsync", "-a", "--exclude", ".git", "--exclude", "__pycache__", REPO + "/", copy + "/"], check=True)
        ap = subprocess.run(["patch", "-p1", "-s", "-i", patch], cwd=copy, capture_output=True, text=True)
        if ap.returncode != 0:
            res["tests"] = "PATCH-FAILED " + (ap.stdout + ap.stderr)[-300:]
            return res
        env = dict(os.environ, PYTHONPATH=os.path.join(copy, "src"), PYTHONDONTWRITEBYTECODE="1")
        if not args.skip_tests:
            t = subprocess.run(["/venv/bin/python", "-m", "pytest", "-q", "-x", "-p", "no:cacheprovider", "--timeout=900"], cwd=copy, env=env, capture_output=True, text=True)
            tail = t.stdout.strip().splitlines()[-1] if t.stdout.strip() else t.stderr[-200:]
            res["tests"] = ("pass: " if t.returncode == 0 else "FAIL: ") + tail
        for pid in props:
            env2 = dict(os.environ, VERIF_REPO=copy, VERIF_EVIDENCE_DIR=evdir, VERIF_PARALLEL=str(args.par))
            c = subprocess.run([os.path.join(VERIF, "check"), pid, args.tier], cwd=VERIF, env=env2, capture_output=True, text=True)
            lines = [line for line in c.stdout.splitlines() if line.startswith("VIOLATION") or line.startswith("  kind=") or line.startswith("INCONCLUSIVE")]
            res["checks"][pid] = {"exit": c.returncode, "first": lines[:2], "tail": c.stdout.strip().splitlines()[-1:] if c.stdout.strip() else [c.stderr[-300:]]}
    finally:
        shutil.rmtree(scratch, ignore_errors=True)
        shutil.rmtree(evdir, ignore_errors=True)
    return res


def main():
    ap = argparse.ArgumentParser()
    ap.add_argument("--tier", default="quick")
    ap.add_argument("--only", default="")
    ap.add_argument("--skip-tests", action="store_true")
    ap.add_argument("--jobs", type=int, default=4)
    ap.add_argument("--par", type=int, default=4)
    ap.add_argument("--check", action="append", help="run these checks instead of the expected ones")
    args = ap.parse_args()
    expect = json.load(open(os.path.join(VERIF, "vf", "selftest", "expect.json")))
    jobs = []
    mdir = os.path.join(VERIF, "vf", "selftest", "mutants")
    for fn in sorted(os.listdir(mdir)):
        if fn.endswith(".diff"):
            name = fn[:-5]
            jobs.append((name, os.path.join(mdir, fn), expect.get(name, [])))
    sdir = os.path.join(VERIF, "seeded")
    if os.path.isdir(sdir):
        for d in sorted(os.listdir(sdir)):
            meta = os.path.join(sdir, d, "meta.json")
            patch = os.path.join(sdir, d, "patch.diff")
            if os.path.exists(meta) and os.path.exists(patch):
                m = json.load(open(meta))
                if m.get("superseded"):
                    continue  # a later repair of /repo made the same change: nothing left to apply
                props = m.get("checks") or [m["property"]]
                if m.get("negative_control"):
                    NEGATIVE.add("seeded/" + d)
                jobs.append(("seeded/" + d, patch, props))
    jobs = [j for j in jobs if args.only in j[0]]
    if args.check:
        jobs = [(n, p, args.check) for n, p, _ in jobs]
    bad = 0
    with ThreadPoolExecutor(max_workers=args.jobs) as pool:
        for res in pool.map(lambda j: run_one(j[0], j[1], j[2], args), jobs):
            negative = os.path.basename(res["name"]).startswith("ok_") or res["name"] in NEGATIVE
            print(f"== {res['name']}  tests: {res['tests']}")
            if res["tests"] and res["tests"].startswith("PATCH-FAILED"):
                bad += 1
            elif res["tests"] and not res["tests"].startswith("pass") and not args.skip_tests:
                print("   (the pinned suite catches this one as well: not a 'realistic' mutant, kept as a plain sensitivity probe)")
            for pid, c in res["checks"].items():
                want = 0 if negative else 1
                ok = c["exit"] == want
                bad += 0 if ok else 1
                print(f"   {pid}: exit {c['exit']} {'as expected' if ok else '!! EXPECTED ' + str(want)}  {' | '.join(c['first'])[:260]}")
                if not ok:
                    print("      ", c["tail"])
            sys.stdout.flush()
    print("selftest:", "all as expected" if not bad else f"{bad} problems")
    return 1 if bad else 0


if __name__ == "__main__":
    sys.exit(main())
