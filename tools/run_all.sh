#!/bin/bash
# tools/run_all.sh [quick|thorough] [seed]   runs every registered check, prints one line each
cd "$(dirname "$0")/.." || exit 2
tier=${1:-quick}; seed=${2:-0}; rc=0
for id in C01 C02 C03 C04 C05 C06 C07 C08 C09 C10 C11 C12 C13 C14 C15 C16 C17 C18 C19 C20; do
  out=$(VERIF_SEED=$seed ./check $id $tier 2>&1); code=$?
  echo "$out" | grep -E "^(VIOLATION|INCONCLUSIVE|KNOWN-FINDING|  kind=)" | head -6
  echo "$out" | tail -1 | cut -c1-260
  [ $code -ne 0 ] && { echo "   -> exit $code"; rc=1; }
done
exit $rc
