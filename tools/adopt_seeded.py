#!/venv/bin/python
"""
Adopts a breakage written by an independent sub-agent into /verif/seeded/<id>/ after confirming all of it in a scratch copy:
  * the patch applies to /repo's working tree,
  * the pinned suite still passes with it (532 passed),
  * the demonstration passes without the change and fails with it.
usage: tools/adopt_seeded.py <agent dir with patch.diff, demo.py, NOTES.md> <property id> <seeded id> ["needs ..."]
"""
import json
import os
import shutil
import subprocess
import sys
import tempfile

VERIF = os.path.dirname(os.path.dirname(os.path.abspath(__file__)))


def run(cmd, cwd, env=None):
    p = subprocess.run(cmd, cwd=cwd, env=env, capture_output=True, text=True)
    return p.returncode, (p.stdout + p.stderr)


def main():
    src, pid, sid = sys.argv[1], sys.argv[2], sys.argv[3]
    needs = sys.argv[4] if len(sys.argv) > 4 else ""
    scratch = tempfile.mkdtemp(prefix="vf-adopt-")
    ran = []
    try:
        clean = os.path.join(scratch, "clean")
        mutated = os.path.join(scratch, "mutated")
        for d in (clean, mutated):
            subprocess.run(["rsync", "-a", "--exclude", ".git", "--exclude", "__pycache__", "--exclude", "SEEDED", "/repo/", d + "/"], check=True)
        code, out = run(["patch", "-p1", "-s", "-i", os.path.join(src, "patch.diff")], mutated)
        if code != 0:
            print("REJECTED: patch does not apply:", out[-400:])
            return 1
        env = lambda d: dict(os.environ, PYTHONPATH=os.path.join(d, "src"), PYTHONDONTWRITEBYTECODE="1")  # noqa: E731
        code, out = run(["/venv/bin/python", "-m", "pytest", "-q", "-p", "no:cacheprovider", "--timeout=900"], mutated, env(mutated))
        tail = next((ln for ln in reversed(out.strip().splitlines()) if " passed" in ln or " failed" in ln or " error" in ln), out.strip().splitlines()[-1])
        ran.append(f"pinned suite with the change applied (scratch copy): {tail}")
        if code != 0:
            print("REJECTED: suite fails with the change:", tail)
            return 1
        demo = os.path.join(src, "demo.py")
        code_clean, out_clean = run(["/venv/bin/python", demo], clean, env(clean))
        code_mut, out_mut = run(["/venv/bin/python", demo], mutated, env(mutated))
        ran.append(f"demo.py on the unchanged tree: exit {code_clean}")
        ran.append(f"demo.py with the change applied: exit {code_mut}; last line: {(out_mut.strip().splitlines() or [''])[-1][:300]}")
        if code_clean != 0 or code_mut == 0:
            print(f"REJECTED: demo exits {code_clean} without and {code_mut} with the change\n{out_clean[-500:]}\n----\n{out_mut[-500:]}")
            return 1
        dst = os.path.join(VERIF, "seeded", sid)
        os.makedirs(dst, exist_ok=True)
        for fn in ("patch.diff", "demo.py", "NOTES.md"):
            if os.path.exists(os.path.join(src, fn)):
                shutil.copy(os.path.join(src, fn), os.path.join(dst, fn))
        meta = {"property": pid, "id": sid, "origin": "written by an independent sub-agent that saw only the property text and a scratch worktree", "needs_to_manifest": needs, "confirmed": ran, "checks": [pid]}
        with open(os.path.join(dst, "meta.json"), "w", encoding="utf-8") as f:
            json.dump(meta, f, indent=1)
            f.write("\n")
        print("ADOPTED", sid, "|", " | ".join(ran))
        return 0
    finally:
        shutil.rmtree(scratch, ignore_errors=True)


if __name__ == "__main__":
    sys.exit(main())
