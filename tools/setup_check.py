#!/venv/bin/python
"""MANIFEST.setup_cmd: nothing has to be built (pure Python); verify offline that the framework can import the repository."""
import os
import sys

sys.path.insert(0, os.path.dirname(os.path.dirname(os.path.abspath(__file__))))
from vf import repo  # noqa: E402
from vf import evaluators, sched, canon, monitors  # noqa: E402,F401

print("setup ok: ahbicht from", repo.SRC, "python", sys.version.split()[0])
