#!/venv/bin/python
"""
Regenerates /verif/MANIFEST.json from vf/checks/META (+ the texts below) and validates it against the schema.
Properties without a check module are listed under not_applicable with the reason given in NOT_CLAIMED.
    /venv/bin/python tools/make_manifest.py
"""

import json
import os
import subprocess
import sys

VERIF = os.path.dirname(os.path.dirname(os.path.abspath(__file__)))
sys.path.insert(0, VERIF)
from vf.checks import META  # noqa: E402

TECHNIQUE = {
    "C01": "runtime monitoring: reference precedence parser as oracle on generated expressions; binarisation matcher",
    "C02": "runtime monitoring: three-valued reference recogniser + exception-type monitor on hostile strings",
    "C03": "runtime monitoring: exhaustive enumeration of operand tuples against the laws and README rows; in-situ operator contract",
    "C04": "runtime monitoring: reference four-valued evaluator as oracle over all assignments",
    "C05": "runtime monitoring: metamorphic relations between executions of the real evaluator",
    "C06": "runtime monitoring: structural validity predicate vs observed InvalidExpressionError under every assignment",
    "C07": "runtime monitoring: collected expression re-parsed and evaluated by the real code vs reference collection, all assignments",
    "C08": "runtime monitoring: Boolean reference + message-presence invariant on every evaluation",
    "C09": "runtime monitoring: reference splitter/selector on generated AHB expressions",
    "C10": "runtime monitoring: textual-substitution oracle under explored completion orders",
    "C11": "runtime monitoring: history monitor with cache-integrity invariant checked at every step",
    "C12": "runtime monitoring: controlled asyncio completion-order explorer + per-key pairing contracts + context-isolation log",
    "C13": "runtime monitoring: reference validator + exactly-once/order/pruning log checkers on random AHB trees under random schedules",
    "C14": "runtime monitoring: metamorphic relation real(soll flag) vs real(SOLL rewritten)",
    "C15": "runtime monitoring: unique-input event log inside yielding format-constraint evaluators, checked per event",
    "C16": "runtime monitoring with fault injection: invalid expressions planted at node subsets, differential vs Kann replacement",
    "C17": "runtime monitoring: reference value-pool model on generated pools, inputs, parent statuses",
    "C18": "runtime monitoring: boundary-exhaustive key classification + Cartesian-product checker",
    "C19": "runtime monitoring: round-trip monitor on objects produced by real parses and evaluations",
    "C20": "runtime monitoring: independent EU-DST calendar oracle; complete positive set 1996-2037, boundary/random negatives, robustness fuzz",
}

LEVEL_TEXT = {
    "C03": "The operand space is finite (4^2 pairs, 4^3 triples per operator) and is enumerated completely against every law the property names, so on this property the run is exhaustive; the in-situ contract additionally shows the same table holding for operator calls made inside real evaluations.",
}
DEFAULT_LEVEL_TEXT = (
    "Held on the executions the monitors observed (numbers in the evidence file): a deterministic oracle decides every generated case; "
    "reach comes from generator diversity, complete enumeration of the small finite sub-spaces and explored completion orders, not from a proof."
)
LEVEL_NOTE = {
    "C03": "Trusted: CPython, the README parser in vf/checks/c03.py (fails closed: fewer than 15 value rows => inconclusive).",
}
DEFAULT_LEVEL_NOTE = "Trusted: CPython/asyncio, the generators and reference models under vf/gen and vf/ref (validated against seeded breakages, see DESIGN.md section 7); only generated inputs and explored schedules are covered."

NOT_CLAIMED_REASON = "check not built yet in this commit (work in progress; the design in DESIGN.md section 4 applies) - runtime monitoring is applicable"


def main():
    props = [json.loads(line) for line in open(os.path.join(VERIF, "properties.jsonl"), encoding="utf-8") if line.strip()]
    checks = []
    not_applicable = []
    for p in props:
        pid = p["id"]
        if pid not in META or not os.path.exists(os.path.join(VERIF, "vf", "checks", pid.lower() + ".py")):
            not_applicable.append({"property_id": pid, "reason": NOT_CLAIMED_REASON})
            continue
        meta = META[pid]
        checks.append(
            {
                "property_id": pid,
                "quick_cmd": f"./check {pid} quick",
                "thorough_cmd": f"./check {pid} thorough",
                "evidence_file": f"/verif/evidence/{pid}.json",
                "replay_cmd_template": f"./check {pid} --replay {{path}}",
                "engine": "vf",
                "level_claimed": {
                    "category": meta["level"],
                    "text": LEVEL_TEXT.get(pid, DEFAULT_LEVEL_TEXT),
                    "design_ref": f"DESIGN.md section 4, {pid}",
                },
                "level_note": LEVEL_NOTE.get(pid, DEFAULT_LEVEL_NOTE),
                "technique": TECHNIQUE[pid],
            }
        )
    manifest = {
        "version": 1,
        "setup_cmd": "/venv/bin/python tools/setup_check.py",
        "hooks": {
            "guard": "AHBICHT_VERIF",
            "enable": "no source hooks are needed: all observation points are reachable from outside (module globals, user-supplied evaluators, sys.monitoring); the checks set AHBICHT_VERIF=1 for form's sake",
            "baseline_off_cmd": "cd /repo && env -u AHBICHT_VERIF /venv/bin/python -m pytest -ra -q -p no:cacheprovider --timeout=900 --continue-on-collection-errors",
            "source_commits": [],
            "add_only": True,
        },
        "engines": [
            {
                "name": "vf",
                "path": "/verif/vf",
                "serves_properties": [c["property_id"] for c in checks],
                "kind_free_text": "runtime monitoring framework: generators, reference-model oracles, asyncio completion-order explorer, contracts and event-log checkers around the real code imported from /repo/src",
            }
        ],
        "checks": checks,
        "notes": "All checks: `./check <ID> quick|thorough`, honour VERIF_SEED; exit 0 held / 1 VIOLATION / 2 INCONCLUSIVE. known findings: /verif/known_findings.json. Seeded breakages and which check catches them: DESIGN.md section 7 and /verif/seeded/.",
        "not_applicable": not_applicable,
    }
    out = os.path.join(VERIF, "MANIFEST.json")
    with open(out, "w", encoding="utf-8") as f:
        json.dump(manifest, f, indent=1)
        f.write("\n")
    # validate with the tooling venv's jsonschema
    code = (
        "import json,jsonschema,sys;"
        "jsonschema.validate(json.load(open(sys.argv[1])), json.load(open('/root/.vp/MANIFEST.schema.json')));print('MANIFEST valid:', len(json.load(open(sys.argv[1]))['checks']), 'checks')"
    )
    subprocess.run(["python3-vt", "-c", code, out], check=True)


if __name__ == "__main__":
    main()
