#!/venv/bin/python
"""
Regenerates /verif/MANIFEST.json from vf/checks/META (+ the texts below) and validates it against the schema.
Properties without a check module are listed under not_applicable with the reason given in NOT_CLAIMED.
    /venv/bin/python tools/make_manifest.py
"""

import json
import os
import subprocess
import sys

VERIF = os.path.dirname(os.path.dirname(os.path.abspath(__file__)))
sys.path.insert(0, VERIF)
from vf.checks import META  # noqa: E402

TECHNIQUE = {
    "C01": "runtime monitoring: reference precedence parser as oracle on generated expressions; binarisation matcher",
    "C02": "runtime monitoring: three-valued reference recogniser + exception-type monitor on hostile strings",
    "C03": "runtime monitoring: exhaustive enumeration of operand tuples against the laws and README rows; in-situ operator contract",
    "C04": "runtime monitoring: reference four-valued evaluator as oracle over all assignments",
    "C05": "runtime monitoring: metamorphic relations between executions of the real evaluator",
    "C06": "runtime monitoring: structural validity predicate vs observed InvalidExpressionError under every assignment",
    "C07": "runtime monitoring: collected expression re-parsed and evaluated by the real code vs reference collection, all assignments",
    "C08": "runtime monitoring: Boolean reference + message-presence invariant on every evaluation",
    "C09": "runtime monitoring: reference splitter/selector on generated AHB expressions",
    "C10": "runtime monitoring: textual-substitution oracle under explored completion orders",
    "C11": "runtime monitoring: history monitor with cache-integrity invariant checked at every step",
    "C12": "runtime monitoring: controlled asyncio completion-order explorer + per-key pairing contracts + context-isolation log",
    "C13": "runtime monitoring: reference validator + exactly-once/order/pruning log checkers on random AHB trees under random schedules",
    "C14": "runtime monitoring: metamorphic relation real(soll flag) vs real(SOLL rewritten)",
    "C15": "runtime monitoring: unique-input event log inside yielding format-constraint evaluators, checked per event",
    "C16": "runtime monitoring with fault injection: invalid expressions planted at node subsets, differential vs Kann replacement",
    "C17": "runtime monitoring: reference value-pool model on generated pools, inputs, parent statuses",
    "C18": "runtime monitoring: boundary-exhaustive key classification + Cartesian-product checker",
    "C19": "runtime monitoring: round-trip monitor on objects produced by real parses and evaluations",
    "C20": "runtime monitoring: independent EU-DST calendar oracle; complete positive set 1996-2037, boundary/random negatives, robustness fuzz",
}

LEVEL_TEXT = {
    "C01": "Every generated well-formed expression (token level, all spellings, whitespace, redundant brackets, all 4! level orderings, long chains, deep nesting) is parsed by the real parser and its tree must be a binarisation of the n-ary grouping computed by an independent precedence parser. Held on the strings observed; Earley ambiguity resolution on patterns never generated stays unexplored.",
    "C02": "Hostile strings (well-formed, 1-3 character edits, garbage incl. non-ASCII look-alikes, structural edge cases, failure sequences through malformed packages) go to all three parsing entry points and the validity check; a three-valued hand-written recogniser decides accept/reject where the documentation is clear and only 'tree or SyntaxError' where it is not. Held on the strings observed.",
    "C03": "The operand space is finite (4^2 pairs, 4^3 triples per operator) and is enumerated completely against every law the property names, so on this property the run is exhaustive; the in-situ contract additionally shows the same table holding for operator calls made inside real evaluations.",
    "C04": "For every generated valid expression ALL 3^k assignments (k <= 6) are evaluated by the real tree evaluator and compared with a recursive reference evaluator on the generator's AST; the async API runs with harness evaluators (partly under random completion orders), with the library's own dictionary / ContentEvaluationResult based evaluators (fresh and long-lived data) and with per-message evaluator instances. Held on the executions observed.",
    "C05": "Six metamorphic relations between two executions of the real evaluator (hint and-ed on, format constraint attached, redundant brackets, operands swapped, refinement of UNKNOWN) at all positions of small expressions under all assignments. No reference model is needed for the verdict; held on the related pairs observed.",
    "C06": "The structural validity predicate of the statement is compared with what the real evaluator does under EVERY assignment (direct evaluator, evaluate_ahb_expression_tree, is_valid_expression), incl. neutral-only expressions and failed evaluations in between. Held on the expressions observed.",
    "C07": "The collected expression is parsed by the real parser, its shape and keys are checked and it is evaluated by the real format-constraint evaluator under ALL 2^n truth assignments against a reference collection; both readings of the one corner the statement leaves open are accepted. Held on the expressions observed.",
    "C08": "All 2^n truth assignments of generated format-constraint expressions through the real evaluator (with messages, without messages, async through yielding / shipped evaluators, concurrent evaluations with different texts) against the Boolean value of the AST; message present iff unfulfilled. Held on the evaluations observed.",
    "C09": "Every spelling of every indicator in every letter case is enumerated; random multi-part expressions are split by both parsers and evaluated; the selected part and its outcome are compared with the reference selection and with evaluating that part's condition expression alone (harness and shipped evaluators). Held on the expressions observed.",
    "C10": "The statement itself is the oracle: the resolved tree (canonical form with token types) must equal the tree of the textually substituted expression, for random package tables, under every completion order of the resolver's answers for <= 4 occurrences, through harness and shipped resolvers. Held on the cases observed.",
    "C11": "Random histories of parse / in-place edit of returned trees / cross-parser calls / eviction floods; every returned tree is compared with the first parse of that string and evaluations before/after the history are compared. Histories are independent (private strings) and replayable from their seed. Held on the histories observed.",
    "C12": "A completion-order explorer parks every user-side awaitable and releases them one at a time: all orders for small runs (DFS), FIFO/LIFO/random above; per-key pairing contracts on the gather+zip sites decide each gather, results are compared with the run where nothing yields and with the written-out expression; context isolation is checked on concurrent evaluations. Held on the schedules observed; only completion orders of user awaitables are explored (that is the property's quantifier).",
    "C13": "A reference validator (documented mapping + parent table + pruning) decides status, order and exactly-once for every node of random AHB trees under random completion orders, single runs and batches in one context, harness and shipped evaluators, with and without maus line indexes. Held on the trees observed.",
    "C14": "Metamorphic: the real validation with the flag is compared node by node with the real validation of the tree in which SOLL is rewritten, incl. UNKNOWN outcomes reaching only SOLL nodes and the default flag after a refused run. Held on the trees observed.",
    "C15": "Every format-constraint evaluation logs the text it was given and the text in the context variable after yielding; both must be the owning element's input (unique inputs, owned keys; shared keys; same instant in different notations; stale text in the caller's context); each element's result must equal its stand-alone validation. Held on the events observed.",
    "C16": "Fault enumeration: a structurally invalid expression is planted at every single site and every pair of sites of small trees (sampled subsets for larger ones) and the run is compared with the 'Kann' variant node by node, also with look-ups shared between nodes and hint texts full of format characters. Held on the injections observed.",
    "C17": "A reference model of the offered set (pool order) and of accept / flag-and-empty / forbidden decides every generated pool x assignment x input x parent status, through the direct entry point and through validate_segment. Held on the cases observed.",
    "C18": "Classification is exhaustive over 0..3000 (every boundary); extraction is compared with a regex-based reference partition for generated expressions with all flag combinations; the union law incl. reused summands; the product for every (m, n) up to the tier's bound incl. regeneration after the key lists changed. Held on the cases observed; the classification part is exhaustive for 0..3000.",
    "C19": "Every object the workloads produce (trees from all parsers incl. staged resolution, results of real evaluations with null outcomes, extracts as extracted, content evaluation results) is dumped to JSON and loaded back and compared; round-tripped trees are evaluated against the originals; other schemas and rejected documents are interleaved. Held on the objects observed.",
    "C20": "An independent integer EU-DST calendar decides all five constraints for the COMPLETE positive set 1996-2037 (30 682 instants), their neighbours, both switch days of every year per quarter hour, random instants, each in several notations; hostile strings must never raise. The positive set and the switch-day grid are complete; offsets and other instants are sampled.",
}
DEFAULT_LEVEL_TEXT = (
    "Held on the executions the monitors observed (numbers in the evidence file): a deterministic oracle decides every generated case; "
    "reach comes from generator diversity, complete enumeration of the small finite sub-spaces and explored completion orders, not from a proof."
)
LEVEL_NOTE = {
    "C03": "Trusted: CPython, the README parser in vf/checks/c03.py (fails closed: fewer than 15 value rows => inconclusive).",
}
DEFAULT_LEVEL_NOTE = "Trusted: CPython/asyncio, the generators and reference models under vf/gen and vf/ref (validated against seeded breakages, see DESIGN.md section 7); only generated inputs and explored schedules are covered."

NOT_CLAIMED_REASON = "check not built yet in this commit (work in progress; the design in DESIGN.md section 4 applies) - runtime monitoring is applicable"


def main():
    props = [json.loads(line) for line in open(os.path.join(VERIF, "properties.jsonl"), encoding="utf-8") if line.strip()]
    checks = []
    not_applicable = []
    for p in props:
        pid = p["id"]
        if pid not in META or not os.path.exists(os.path.join(VERIF, "vf", "checks", pid.lower() + ".py")):
            not_applicable.append({"property_id": pid, "reason": NOT_CLAIMED_REASON})
            continue
        meta = META[pid]
        checks.append(
            {
                "property_id": pid,
                "quick_cmd": f"./check {pid} quick",
                "thorough_cmd": f"./check {pid} thorough",
                "evidence_file": f"/verif/evidence/{pid}.json",
                "replay_cmd_template": f"./check {pid} --replay {{path}}",
                "engine": "vf",
                "level_claimed": {
                    "category": meta["level"],
                    "text": LEVEL_TEXT.get(pid, DEFAULT_LEVEL_TEXT),
                    "design_ref": f"DESIGN.md section 4, {pid}",
                },
                "level_note": LEVEL_NOTE.get(pid, DEFAULT_LEVEL_NOTE),
                "technique": TECHNIQUE[pid],
            }
        )
    manifest = {
        "version": 1,
        "setup_cmd": "/venv/bin/python tools/setup_check.py",
        "hooks": {
            "guard": "AHBICHT_VERIF",
            "enable": "no source hooks are needed: all observation points are reachable from outside (module globals, user-supplied evaluators, sys.monitoring); the checks set AHBICHT_VERIF=1 for form's sake",
            "baseline_off_cmd": "cd /repo && env -u AHBICHT_VERIF /venv/bin/python -m pytest -ra -q -p no:cacheprovider --timeout=900 --continue-on-collection-errors",
            "source_commits": [],
            "add_only": True,
        },
        "engines": [
            {
                "name": "vf",
                "path": "/verif/vf",
                "serves_properties": [c["property_id"] for c in checks],
                "kind_free_text": "runtime monitoring framework: generators, reference-model oracles, asyncio completion-order explorer, contracts and event-log checkers around the real code imported from /repo/src",
            }
        ],
        "checks": checks,
        "notes": "All checks: `./check <ID> quick|thorough`, honour VERIF_SEED; exit 0 held / 1 VIOLATION / 2 INCONCLUSIVE. known findings: /verif/known_findings.json. Seeded breakages and which check catches them: DESIGN.md section 7 and /verif/seeded/.",
        "not_applicable": not_applicable,
    }
    out = os.path.join(VERIF, "MANIFEST.json")
    with open(out, "w", encoding="utf-8") as f:
        json.dump(manifest, f, indent=1)
        f.write("\n")
    # validate with the tooling venv's jsonschema
    code = (
        "import json,jsonschema,sys;"
        "jsonschema.validate(json.load(open(sys.argv[1])), json.load(open('/root/.vp/MANIFEST.schema.json')));print('MANIFEST valid:', len(json.load(open(sys.argv[1]))['checks']), 'checks')"
    )
    subprocess.run(["python3-vt", "-c", code, out], check=True)


if __name__ == "__main__":
    main()
