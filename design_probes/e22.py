exec(open("/tmp/exp/e21.py").read().split("ALPH=list(")[0])
import itertools
from lark.exceptions import VisitError
MMS=["muss","soll","kann","m","s","k"]
def ahb_ok(s):
    """three-valued reference for the resolver on AHB-shaped strings; returns (verdict, parts)"""
    if not s: return REJ,None
    uns=False
    if s[0] in WSCH or s[0].isspace(): 
        return (UNS if s.strip() and ahb_ok(s.lstrip())[0]!=REJ else REJ),None
    if s[0] in "XOUxou":
        rest=s[1:]
        if rest=="": return ACC,[(s[0],None)]
        if rest.strip(WSCH)=="" : return UNS,None
        v=cond_ok(rest)
        return v,[(s[0],rest)]
    parts=[]; i=0
    low=s.lower()
    while i<len(s):
        mm=None
        for sp in MMS:
            if low.startswith(sp,i) and s[i:i+len(sp)].isascii():
                # after the spelling the next char must not continue a word that is not cond charset
                mm=s[i:i+len(sp)]; break
        if mm is None: return REJ,None
        i+=len(mm); j=i
        while j<len(s) and s[j] not in "mskMSK": j+=1
        cond=s[i:j]
        if cond=="":
            if j!=len(s): return REJ,None
            parts.append((mm,None)); i=j; break
        if cond.strip(WSCH)=="": uns=True
        parts.append((mm,cond)); i=j
    v=ACC
    for mm,c in parts:
        if c is None: continue
        cv=cond_ok(c)
        if cv==REJ: return (UNS if uns else REJ),None
        if cv==UNS: v=UNS
    if len(parts)==1 and parts[0][1] is None: return ACC,parts
    return (UNS if uns else v),parts
def resolver_ref(s):
    c=cond_ok(s)
    if c!=REJ: return c
    return ahb_ok(s)[0]
def real_res(s):
    try: asyncio.run(pr(s)); return ACC
    except SyntaxError: return REJ
    except VisitError as e: return REJ if isinstance(e.orig_exc,SyntaxError) else "EXC:VisitError/"+type(e.orig_exc).__name__
    except BaseException as e: return "EXC:"+type(e).__name__
IND=["Muss","muss","MUSS","M","m","Soll","S","s","Kann","K","k","X","x","O","U","u","mUsS","sOLL"]
ALPH=list("[]()UOXuox∧∨⊻0123456789P.B \t\n")+["[1]","[2]","[901]","[10P]","[UB1]","U","O"]+IND+["ſ","K","ß","a","n","l"]
def mutate(s,rng):
    s=list(s)
    for _ in range(rng.randint(1,3)):
        r=rng.random(); i=rng.randrange(len(s)+1)
        if r<0.3 and s: del s[min(i,len(s)-1)]
        elif r<0.6: s.insert(i,rng.choice(ALPH))
        elif r<0.8 and s: s[min(i,len(s)-1)]=rng.choice(ALPH)
        elif len(s)>1:
            j=min(i,len(s)-2); s[j],s[j+1]=s[j+1],s[j]
    return "".join(s)

def gen_ahb(rng):
    r=rng.random()
    ws=lambda: rng.choice([""," ","  ","\t","\n"])
    if r<0.1: return rng.choice(IND)
    if r<0.3: return rng.choice(["X","x","O","o","U","u"])+ws()+gen_expr(rng,1)+ws()
    s="".join(rng.choice([x for x in IND if x[0] in "MmSsKk"])+ws()+gen_expr(rng,1)+ws() for _ in range(rng.randint(1,3)))
    if rng.random()<0.3: s+=rng.choice([x for x in IND if x[0] in "MmSsKk"])
    return s
rng=random.Random(int(sys.argv[1])); n=int(sys.argv[2]); stat={}; bad=0; t0=time.time()
for i in range(n):
    r=rng.random()
    if r<0.3: s=gen_ahb(rng)
    elif r<0.8: s=mutate(gen_ahb(rng),rng)
    else: s="".join(rng.choice(ALPH) for _ in range(rng.randint(0,8)))
    exp=resolver_ref(s); got=real_res(s)
    stat[(exp,got)]=stat.get((exp,got),0)+1
    if got.startswith("EXC") or (exp!=UNS and exp!=got):
        bad+=1
        if bad<30: print("DISAGREE",ascii(s),"ref",exp,"real",got)
print(stat,"bad",bad,"t=%.1f"%(time.time()-t0))
