import ahbicht.content_evaluation
import asyncio, inject, random, sys, time, itertools
from efoli import EdifactFormat, EdifactFormatVersion
from lark import Tree, Token
from ahbicht.content_evaluation.evaluationdatatypes import EvaluatableData, EvaluatableDataProvider, EvaluationContext
from ahbicht.content_evaluation.rc_evaluators import RcEvaluator
from ahbicht.content_evaluation.fc_evaluators import FcEvaluator
from ahbicht.content_evaluation.token_logic_provider import SingletonTokenLogicProvider, TokenLogicProvider
from ahbicht.expressions.hints_provider import HintsProvider
from ahbicht.expressions.package_expansion import PackageResolver
from ahbicht.expressions.expression_resolver import parse_expression_including_unresolved_subexpressions as pr
from ahbicht.expressions.condition_expression_parser import parse_condition_expression_to_tree as pc
from ahbicht.expressions.ahb_expression_evaluation import evaluate_ahb_expression_tree
from ahbicht.expressions.requirement_constraint_expression_evaluation import requirement_constraint_evaluation
from ahbicht.expressions.format_constraint_expression_evaluation import format_constraint_evaluation
from ahbicht.models.condition_nodes import ConditionFulfilledValue as V, EvaluatedFormatConstraint as EFC
from ahbicht.models.mapping_results import PackageKeyConditionExpressionMapping
exec(open("/tmp/exp/e7_lib.py").read())
exec(open("/tmp/exp/e8_lib.py").read())
ed=EvaluatableData(body={}, edifact_format=EdifactFormat.UTILMD, edifact_format_version=EdifactFormatVersion.FV2210)
def configure(binder):
    binder.bind(TokenLogicProvider, SingletonTokenLogicProvider([MyRc(),MyFc(),MyHints(),MyPkg()]))
    binder.bind_to_provider(EvaluatableDataProvider, lambda: ed)
inject.configure_once(configure)
HINTS.update({str(k):"H%d"%k for k in range(501,505)})
def cases(w): return {"".join(c) for c in itertools.product(*[(ch.lower(),ch.upper()) for ch in w])}
ISP={"MUSS":sorted(cases("muss")|cases("m")),"SOLL":sorted(cases("soll")|cases("s")),"KANN":sorted(cases("kann")|cases("k")),"X":["X","x"],"O":["O","o"],"U":["U","u"]}
WS=[""," ","  ","\t","\n"]
def canon(t):
    if isinstance(t,Tree): return (str(t.data),tuple(canon(c) for c in t.children))
    if isinstance(t,Token): return ("T",t.type,str(t))
    return ("?",repr(t))
def cond(rng):
    while True:
        t=gen(rng,rng.randint(0,2))
        if t[0]!="fc" and not structurally_invalid(t): return t
async def main():
    global SCHED
    SCHED=Sched(None,enabled=False)
    rng=random.Random(int(sys.argv[1])); n=int(sys.argv[2]); bad=0; known=0; t0=time.time()
    for i in range(n):
        r=rng.random()
        if r<0.1: parts=[(rng.choice(list(ISP)),None)]
        elif r<0.35: parts=[(rng.choice(["X","O","U"]),cond(rng))]
        else:
            parts=[(rng.choice(["MUSS","SOLL","KANN"]),cond(rng)) for _ in range(rng.randint(1,4))]
            if rng.random()<0.3: parts.append((rng.choice(["MUSS","SOLL","KANN"]),None))
        strs=[]; s=""
        for ind,c in parts:
            sp=rng.choice(ISP[ind]); cs=None if c is None else rng.choice(WS)+render(c,rng)+rng.choice(WS)
            strs.append((sp,cs)); s+=sp+(cs or "")
        RC.clear(); RC.update({str(k):rng.choice([F,U,K]) for k in range(1,7)}); FC.clear(); FC.update({str(k):EFC(True,None) if rng.random()<0.5 else EFC(False,"bad%d"%k) for k in range(901,906)})
        try: tree=await pr(s)
        except BaseException as e: bad+=1; print("PARSE",repr(s),type(e).__name__); continue
        # structure
        ch=tree.children; ok=len(ch)==len(parts)
        for c,(sp,cs) in zip(ch,strs):
            if cs is None: ok&= c.data=="requirement_indicator" and str(c.children[0])==sp
            else: ok&= c.data=="single_requirement_indicator_expression" and str(c.children[0])==sp and canon(c.children[1])==canon(pc(cs))
        if not ok: bad+=1; print("SPLIT",repr(s),tree); continue
        # evaluation
        exp=None
        sub=[]
        for (ind,c),(sp,cs) in zip(parts,strs):
            if cs is None: sub.append((ind,True,None,None,True,None,False)); continue
            rr=await requirement_constraint_evaluation(cs); ff=await format_constraint_evaluation(rr.format_constraints_expression)
            sub.append((ind,rr.requirement_constraints_fulfilled,rr.hints,rr.format_constraints_expression,ff.format_constraints_fulfilled,ff.error_message,rr.requirement_is_conditional))
        sel=next((x for x in sub if x[1]), sub[-1])
        try:
            got=await evaluate_ahb_expression_tree(tree)
        except BaseException as e:
            if isinstance(e,ValueError) and "PrefixOperator" in str(e): known+=1; continue
            bad+=1; print("EVAL",repr(s),type(e).__name__,e); continue
        g=(str(got.requirement_indicator),got.requirement_constraint_evaluation_result.requirement_constraints_fulfilled,got.requirement_constraint_evaluation_result.hints,got.requirement_constraint_evaluation_result.format_constraints_expression,got.format_constraint_evaluation_result.format_constraints_fulfilled,got.format_constraint_evaluation_result.error_message)
        if g!=sel[:6]: bad+=1; print("SELECT",repr(s),g,sel)
        if len(parts)==1 and got.requirement_constraint_evaluation_result.requirement_is_conditional!=sel[6]: bad+=1; print("COND",repr(s))
    print("done",n,"bad",bad,"known D2",known,"t=%.1f"%(time.time()-t0))
asyncio.run(main())
