import ahbicht.content_evaluation, asyncio
from ahbicht.expressions.ahb_expression_parser import parse_ahb_expression_to_single_requirement_indicator_expressions as pa
from ahbicht.expressions.condition_expression_parser import parse_condition_expression_to_tree as pc
from ahbicht.expressions.expression_resolver import parse_expression_including_unresolved_subexpressions as pr
for s in ["ſ[1]","Muſs[1]","K[1]","Kann[1]","Muss[1]K", "Muss [1] ", " Muss[1]","Muss","Muss ","MussMuss","Muss[1]Muss","M[1]S","MS","X","XX","X[1]X","Muss[1]X", "X[1] O[2]", "Mus[1]", "Mu[1]", "Muss[1]U[2]Soll[3]", "MUSS[1]U[2]", "muss u[1]", "Muss[1]u[2]uSoll[3]","Muss[1]\nSoll[2]"]:
    try:
        t=pa(s); print(repr(s),"ACCEPT",[ (c.data, [str(x) for x in c.children]) if hasattr(c,'data') else str(c) for c in t.children])
    except SyntaxError: print(repr(s),"SyntaxError")
    except BaseException as e: print(repr(s),"OTHER",type(e).__name__)
for s in ["[1]ẞ[2]", "[1]ů[2]"]:
    try: pc(s); print(repr(s),"ACCEPT")
    except SyntaxError: print(repr(s),"SyntaxError")
