import ahbicht.content_evaluation
import asyncio, inject, random, sys, time
from contextvars import ContextVar
from typing import Optional
from efoli import EdifactFormat, EdifactFormatVersion
from ahbicht.content_evaluation.evaluationdatatypes import EvaluatableData, EvaluatableDataProvider, EvaluationContext
from ahbicht.content_evaluation.rc_evaluators import RcEvaluator
from ahbicht.content_evaluation.fc_evaluators import FcEvaluator
from ahbicht.content_evaluation.token_logic_provider import SingletonTokenLogicProvider, TokenLogicProvider
from ahbicht.expressions.hints_provider import HintsProvider
from ahbicht.expressions.package_expansion import PackageResolver
from ahbicht.expressions.expression_resolver import parse_expression_including_unresolved_subexpressions as pr
from ahbicht.expressions.ahb_expression_evaluation import evaluate_ahb_expression_tree
from ahbicht.models.condition_nodes import ConditionFulfilledValue as V, EvaluatedFormatConstraint as EFC
from ahbicht.models.mapping_results import PackageKeyConditionExpressionMapping

class Sched:
    """user-supplied awaitables park here; a driver task releases them one at a time in a seeded random order, only when the loop is otherwise quiescent"""
    def __init__(self, rng, enabled=True):
        self.rng=rng; self.enabled=enabled; self.pending=[]; self.order=[]; self.registered=0
    async def point(self,label):
        if not self.enabled: return
        fut=asyncio.get_running_loop().create_future()
        self.pending.append((label,fut)); self.registered+=1
        await fut
    async def drive(self, main_task):
        idle=0
        while not main_task.done():
            before=self.registered
            await asyncio.sleep(0)
            if self.registered!=before: idle=0; continue
            idle+=1
            if idle<3: continue   # let chains of call_soon settle
            idle=0
            if self.pending:
                i=self.rng.randrange(len(self.pending))
                label,fut=self.pending.pop(i); self.order.append(label); fut.set_result(None)
        return
    async def run(self, coro):
        main=asyncio.ensure_future(coro)
        await self.drive(main)
        return await main

SCHED=None
RC={}; HINTS={}; PKG={}; FC={}
class MyRc(RcEvaluator):
    edifact_format=EdifactFormat.UTILMD; edifact_format_version=EdifactFormatVersion.FV2210
    def _get_default_context(self): return EvaluationContext(scope=None)
    async def evaluate_single_condition(self, condition_key, evaluatable_data, context=None):
        await SCHED.point(("rc",condition_key)); return RC[condition_key]
class MyFc(FcEvaluator):
    edifact_format=EdifactFormat.UTILMD; edifact_format_version=EdifactFormatVersion.FV2210
    async def evaluate_single_format_constraint(self, condition_key):
        await SCHED.point(("fc",condition_key)); return FC[condition_key]
class MyHints(HintsProvider):
    edifact_format=EdifactFormat.UTILMD; edifact_format_version=EdifactFormatVersion.FV2210
    async def get_hint_text(self, condition_key):
        await SCHED.point(("hint",condition_key)); return HINTS.get(condition_key)
class MyPkg(PackageResolver):
    edifact_format=EdifactFormat.UTILMD; edifact_format_version=EdifactFormatVersion.FV2210
    async def get_condition_expression(self, package_key):
        await SCHED.point(("pkg",package_key))
        return PackageKeyConditionExpressionMapping(package_key=package_key, package_expression=PKG.get(package_key), edifact_format=EdifactFormat.UTILMD)
ed=EvaluatableData(body={}, edifact_format=EdifactFormat.UTILMD, edifact_format_version=EdifactFormatVersion.FV2210)
def configure(binder):
    binder.bind(TokenLogicProvider, SingletonTokenLogicProvider([MyRc(),MyFc(),MyHints(),MyPkg()]))
    binder.bind_to_provider(EvaluatableDataProvider, lambda: ed)
inject.configure_once(configure)
RC.update({"1":V.FULFILLED,"2":V.UNFULFILLED,"3":V.FULFILLED,"4":V.UNKNOWN})
HINTS.update({"501":"h501","502":"h502"}); FC.update({"901":EFC(True,None),"902":EFC(False,"e902")}); PKG.update({"10P":"[1]U[502]","11P":"[2]O[3]"})
async def job(expr):
    t=await pr(expr, resolve_packages=True)
    return await evaluate_ahb_expression_tree(t)
expr="Muss [10P] U ([2] O [3])[901] U [501] Soll [11P][902] U [11P] Kann [4]"
async def main():
    global SCHED
    SCHED=Sched(random.Random(0),enabled=False); base=await job(expr); print("base",base)
    orders=set(); t0=time.time()
    for seed in range(200):
        SCHED=Sched(random.Random(seed)); r=await SCHED.run(job(expr))
        orders.add(tuple(SCHED.order))
        assert r==base,(seed,r)
    print("200 runs, distinct completion orders",len(orders),"points per run",len(SCHED.order),"t=%.2f"%(time.time()-t0)); print(SCHED.order)
asyncio.run(main())
