import ahbicht.content_evaluation, asyncio, json, uuid
from ahbicht.expressions.ahb_expression_parser import parse_ahb_expression_to_single_requirement_indicator_expressions as pa
from ahbicht.expressions.condition_expression_parser import parse_condition_expression_to_tree as pc, extract_categorized_keys, extract_categorized_keys_from_tree
from ahbicht.condition_node_distinction import derive_condition_node_type
from ahbicht.json_serialization.tree_schema import TreeSchema
from ahbicht.models.content_evaluation_result import *
from ahbicht.models.categorized_key_extract import *
from ahbicht.models.condition_nodes import *
for s in ["K[1]","Kann[1]","ſoll[1]","Muſſ[1]", "ı[1]"]:
    try: t=pa(s); print(ascii(s),"ACCEPT",[ascii(str(c.children[0])) for c in t.children])
    except SyntaxError: print(ascii(s),"SyntaxError")
for k in ["0","1","499","500","900","901","999","1000","1999","2000","2499","2500","007","00","99999999999999999999","1P"]:
    try: print(k, derive_condition_node_type(k))
    except BaseException as e: print(k,"RAISES",type(e).__name__)
async def m():
    for s in ["[3]U[1]U[10]U[2]U[2]","[0]","[1000]","[7]U[007]","[10P]U[9P]U[10P]","[UB3]U[UB1]","[2500]"]:
        for kw in ({}, {"resolve_packages":False,"replace_time_conditions":True}):
            try: print(s,kw, await extract_categorized_keys(s,**kw))
            except BaseException as e: print(s,kw,"RAISES",type(e).__name__,str(e)[:60])
asyncio.run(m())
t=pc("[1]U([2]O[3P1..2])[901][UB1]")
d=TreeSchema().dumps(t); t2=TreeSchema().loads(d)
def canon(t):
    from lark import Tree, Token
    if isinstance(t,Tree): return (str(t.data),type(t.data).__name__,tuple(canon(c) for c in t.children))
    if isinstance(t,Token): return ("T",t.type,str(t))
    return ("?",repr(t))
print("tree rt equal", t==t2, canon(t)==canon(t2))
print(canon(t)); print(canon(t2))
cer=ContentEvaluationResult(hints={"501":None,"502":"x"},format_constraints={"901":EvaluatedFormatConstraint(True,None),"902":EvaluatedFormatConstraint(False,"äö\n\"")},requirement_constraints={"1":ConditionFulfilledValue.NEUTRAL,"2":ConditionFulfilledValue.UNKNOWN},packages=None,id=None)
for c in (cer, ContentEvaluationResult(hints={},format_constraints={},requirement_constraints={},packages={"1P":"[1]"},id=uuid.uuid4())):
    d=ContentEvaluationResultSchema().dumps(c); c2=ContentEvaluationResultSchema().loads(d); print("cer rt", c==c2, d[:120], c2.packages, c2.id)
for e in (EvaluatedFormatConstraint(True,None),EvaluatedFormatConstraint(False,"x"),EvaluatedFormatConstraint(False,None),EvaluatedFormatConstraint(False,"")):
    d=EvaluatedFormatConstraintSchema().dumps(e); print("efc rt", e==EvaluatedFormatConstraintSchema().loads(d), d)
