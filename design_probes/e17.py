import ahbicht.content_evaluation, random, time, sys
from ahbicht.content_evaluation.german_strom_and_gas_tag import has_no_utc_offset, is_xtag_limit
# independent calendar on integer seconds
def days_from_civil(y,m,d):
    y-= m<=2; era=(y if y>=0 else y-399)//400; yoe=y-era*400
    doy=(153*(m+(-3 if m>2 else 9))+2)//5+d-1; doe=yoe*365+yoe//4-yoe//100+doy
    return era*146097+doe-719468
def civil_from_days(z):
    z+=719468; era=(z if z>=0 else z-146096)//146097; doe=z-era*146097
    yoe=(doe-doe//1460+doe//36524-doe//146096)//365; y=yoe+era*400; doy=doe-(365*yoe+yoe//4-yoe//100)
    mp=(5*doy+2)//153; d=doy-(153*mp+2)//5+1; m=mp+(3 if mp<10 else -9)
    return (y+(m<=2),m,d)
def last_sunday(y,m):
    d=days_from_civil(y,m,31)  # Mar and Oct have 31 days
    wd=(d+4)%7  # 1970-01-01 was Thursday(4); 0=Sunday
    return d-wd
def berlin_offset(t):
    y=civil_from_days(t//86400)[0]
    start=last_sunday(y,3)*86400+3600; end=last_sunday(y,10)*86400+3600
    return 7200 if start<=t<end else 3600
def fmt(t,off,sep="T",z=False,frac=""):
    lt=t+off; d,s=divmod(lt,86400); y,m,dd=civil_from_days(d); h,r=divmod(s,3600); mi,se=divmod(r,60)
    if z: o="Z"
    else:
        sign="+" if off>=0 else "-"; a=abs(off); oh,orr=divmod(a,3600); om,os=divmod(orr,60)
        o="%s%02d:%02d"%(sign,oh,om)+(":%02d"%os if os else "")
    return "%04d-%02d-%02d%s%02d:%02d:%02d%s%s"%(y,m,dd,sep,h,mi,se,frac,o)
rng=random.Random(1); bad=0; n=0; t0=time.time()
T0=days_from_civil(1996,1,1)*86400; T1=days_from_civil(2038,1,1)*86400
def check(t):
    global bad,n
    lt=(t+berlin_offset(t))%86400
    offs=[0,3600,7200,rng.randrange(-23*60-59,24*60)*60, rng.randrange(-86399,86400)]
    for off in offs:
        s=fmt(t,off,sep=rng.choice("T "),z=(off==0 and rng.random()<0.5),frac=rng.choice(["",".000"]))
        r1=is_xtag_limit(s,"Strom").format_constraint_fulfilled; r2=is_xtag_limit(s,"Gas").format_constraint_fulfilled
        n+=2
        if r1!=(lt==0) or r2!=(lt==6*3600):
            bad+=1
            if bad<10: print("MISMATCH",s,r1,r2,lt)
        r3=has_no_utc_offset(s).format_constraint_fulfilled; n+=1
        if r3!=(off==0) and not (off==0 and t%86400!=0):   # D7 known
            bad+=1; print("931 MISMATCH",s,r3)
# all positives + neighbours
day=T0//86400
while day*86400<T1:
    for h in (0,6):
        for off_guess in (3600,7200):
            t=day*86400+h*3600-off_guess
            if T0<=t<T1 and (t+berlin_offset(t))%86400==h*3600:
                for dt in (0,-1,1,3600,-3600): check(t+dt)
    day+=1
for _ in range(20000): check(rng.randrange(T0,T1))
print("calls",n,"bad",bad,"t=%.1f"%(time.time()-t0))
