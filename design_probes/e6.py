import ahbicht.content_evaluation
import asyncio, inject
from maus.models.anwendungshandbuch import AhbMetaInformation, DeepAnwendungshandbuch
from maus.models.edifact_components import *
from ahbicht.content_evaluation.evaluator_factory import create_and_inject_hardcoded_evaluators
from ahbicht.content_evaluation.evaluationdatatypes import EvaluatableData
from ahbicht.models.condition_nodes import ConditionFulfilledValue as V, EvaluatedFormatConstraint as EFC
from ahbicht.models.content_evaluation_result import ContentEvaluationResult
from ahbicht.validation.validation import *
from efoli import EdifactFormat, EdifactFormatVersion
cer = ContentEvaluationResult(hints={"501":"foo"}, format_constraints={"902":EFC(True,None),"903":EFC(False,"Format error 903")}, requirement_constraints={"2":V.FULFILLED,"3":V.UNFULFILLED,"4":V.UNKNOWN})
ed = EvaluatableData(body={}, edifact_format=EdifactFormat.UTILMD, edifact_format_version=EdifactFormatVersion.FV2210)
create_and_inject_hardcoded_evaluators(cer, edifact_format=EdifactFormat.UTILMD, edifact_format_version=EdifactFormatVersion.FV2210, evaluatable_data_provider=lambda: ed)
def ahb():
    return DeepAnwendungshandbuch(meta=AhbMetaInformation(pruefidentifikator="12345"), lines=[
        SegmentGroup(discriminator="G1", ahb_expression="Muss", segments=[
            Segment(discriminator="S1", ahb_expression="Muss[2]", data_elements=[
                DataElementFreeText(discriminator="D1", ahb_expression="Soll[2]", entered_input="x", data_element_id="1234"),
                DataElementValuePool(discriminator="D2", data_element_id="0333", entered_input="E01", value_pool=[
                    ValuePoolEntry(qualifier="E01", meaning="a", ahb_expression="X[3]"),
                    ValuePoolEntry(qualifier="E02", meaning="b", ahb_expression="X[3]")]),
            ])], segment_groups=[])])
async def main():
    for soll in (True, False):
        r = await validate_deep_anwendungshandbuch(ahb(), soll_is_required=soll)
        print("soll_is_required", soll)
        for x in r: print("   ", x.discriminator, x.validation_result.requirement_validation, getattr(x.validation_result,"possible_values",None), x.validation_result.hints)
asyncio.run(main())
