import ahbicht.content_evaluation
import random, sys, time, itertools
from ahbicht.expressions.condition_expression_parser import parse_condition_expression_to_tree as pc
from ahbicht.expressions.requirement_constraint_expression_evaluation import evaluate_requirement_constraint_tree
from ahbicht.expressions import InvalidExpressionError
exec(open("/tmp/exp/e7_lib.py").read())
def positions(t, path=()):
    yield path, t
    if t[0]=="then": yield from positions(t[1], path+(1,))
    elif t[0] in("and","or","xor"):
        yield from positions(t[1], path+(1,)); yield from positions(t[2], path+(2,))
def replace(t, path, new):
    if not path: return new
    l=list(t); l[path[0]]=replace(t[path[0]],path[1:],new); return tuple(l)
def ev(t, asg, rng):
    s=render(t,rng); tree=pc(s)
    rcs=keys(t,"rc",set()); hs=keys(t,"hint",set()); fcs=keys(t,"fc",set())
    nodes={k:RequirementConstraint(condition_key=k,conditions_fulfilled=asg[k]) for k in rcs}
    nodes.update({h:Hint(condition_key=h,hint="H"+h) for h in hs})
    nodes.update({f:UnevaluatedFormatConstraint(condition_key=f) for f in fcs})
    return evaluate_requirement_constraint_tree(tree,nodes).conditions_fulfilled, s
rng=random.Random(int(sys.argv[1])); N_=int(sys.argv[2]); bad=0; rel=0; t0=time.time()
for i in range(N_):
    for _ in range(100):
        t=gen(rng,rng.randint(1,3))
        if not structurally_invalid(t) : break
    rcs=sorted(keys(t,"rc",set()))
    allasg=[dict(zip([str(k) for k in range(1,7)],v)) for v in itertools.product([F,U,K],repeat=6)]
    asgs=rng.sample(allasg,12)
    variants=[]
    for path,sub in positions(t):
        parent=t
        for p in path[:-1]: parent=parent[p]
        is_operand = (not path) or (parent[0] in("and","or","xor"))
        if is_operand:
            h=("hint","509")
            variants.append(("T1/T2 hint-and",replace(t,path,("and",sub,h))))
            variants.append(("T1/T2 hint-and-left",replace(t,path,("and",h,sub))))
        if has_rc(sub):
            variants.append(("T3 fc-attach",replace(t,path,("then",sub,"909",rng.random()<0.5))))
        if sub[0] in("and","or","xor"):
            variants.append(("T5 swap",replace(t,path,(sub[0],sub[2],sub[1]))))
    for asg in asgs:
        try: base,s0=ev(t,asg,rng)
        except BaseException as e: print("BASE RAISE",type(e).__name__,render(t,rng)); bad+=1; break
        for name,v in variants:
            rel+=1
            try: got,s1=ev(v,asg,rng)
            except BaseException as e:
                bad+=1; print(name,"RAISES",type(e).__name__,"|",s0,"|",render(v,rng)); break
            if got!=base: bad+=1; print(name,"CHANGED",s0,"->",s1,asg,base,got); break
        if base in (F,U) and K in [asg[k] for k in rcs]:
            unk=[k for k in rcs if asg[k]==K]
            for repl in itertools.product([F,U],repeat=len(unk)):
                a2=dict(asg); a2.update(dict(zip(unk,repl))); rel+=1
                if ev(t,a2,rng)[0]!=base: bad+=1; print("T6 refinement",s0,asg,a2); break
    if bad>5: break
print("done",i+1,"bad",bad,"relations",rel,"t=%.1f"%(time.time()-t0))
