import sys; sys.path.append("/tmp/exp/deps")
import ahbicht.content_evaluation, icontract, time
from ahbicht.models.condition_nodes import ConditionFulfilledValue as V
class OpBroken(Exception): pass
calls=[0]
def table_and(self, other, result):
    calls[0]+=1
    return True
orig=V.__and__
V.__and__ = icontract.ensure(table_and, error=OpBroken)(orig)
print(V.FULFILLED & V.UNKNOWN, calls)
# sys.monitoring line coverage restricted to anchor file, DISABLE after first hit
mon=sys.monitoring; TOOL=mon.COVERAGE_ID; mon.use_tool_id(TOOL,"vf")
seen=set()
import ahbicht.expressions.requirement_constraint_expression_evaluation as m
target=m.__file__
def on_line(code, line):
    if code.co_filename==target: seen.add((code.co_qualname,line))
    return mon.DISABLE
mon.register_callback(TOOL, mon.events.LINE, on_line); mon.set_events(TOOL, mon.events.LINE)
from ahbicht.expressions.condition_expression_parser import parse_condition_expression_to_tree as pc
from ahbicht.models.condition_nodes import *
t0=time.time()
for i in range(200):
    m.evaluate_requirement_constraint_tree(pc("[1]U[2][901]O[3]"),{"1":RequirementConstraint(condition_key="1",conditions_fulfilled=V.FULFILLED),"2":RequirementConstraint(condition_key="2",conditions_fulfilled=V.UNKNOWN),"3":RequirementConstraint(condition_key="3",conditions_fulfilled=V.UNFULFILLED),"901":UnevaluatedFormatConstraint(condition_key="901")})
print("lines seen",len(seen),sorted({q for q,_ in seen}), "t=%.3f"%(time.time()-t0), "and-calls",calls)
mon.set_events(TOOL,0); mon.free_tool_id(TOOL)
