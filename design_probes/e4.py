import ahbicht.content_evaluation
import asyncio, inject
from contextvars import ContextVar
from ahbicht.content_evaluation import is_valid_expression
from ahbicht.content_evaluation.evaluationdatatypes import EvaluatableData, EvaluatableDataProvider
from ahbicht.content_evaluation.evaluator_factory import create_content_evaluation_result_based_evaluators
from ahbicht.content_evaluation.token_logic_provider import SingletonTokenLogicProvider, TokenLogicProvider
from ahbicht.expressions.expression_resolver import parse_expression_including_unresolved_subexpressions as pr
from ahbicht.expressions.ahb_expression_evaluation import evaluate_ahb_expression_tree
from ahbicht.models.content_evaluation_result import ContentEvaluationResult, ContentEvaluationResultSchema
from ahbicht.models.condition_nodes import ConditionFulfilledValue as V, EvaluatedFormatConstraint as EFC
from ahbicht.models.evaluation_results import *
from ahbicht.models.categorized_key_extract import CategorizedKeyExtract
from efoli import EdifactFormat, EdifactFormatVersion
cv = ContextVar("cer", default=None)
def get_ed():
    return EvaluatableData(body=ContentEvaluationResultSchema().dump(cv.get()), edifact_format=EdifactFormat.UTILMD, edifact_format_version=EdifactFormatVersion.FV2210)
def configure(binder):
    binder.bind(TokenLogicProvider, SingletonTokenLogicProvider([*create_content_evaluation_result_based_evaluators(EdifactFormat.UTILMD, EdifactFormatVersion.FV2210)]))
    binder.bind_to_provider(EvaluatableDataProvider, get_ed)
inject.configure_once(configure)
cer = ContentEvaluationResult(hints={"501":"h501"}, format_constraints={"901":EFC(True,None)}, requirement_constraints={"1":V.FULFILLED,"2":V.UNKNOWN,"3":V.UNFULFILLED}, packages={})
cv.set(cer)
async def main():
    for s in ["x[1]","X[1]","o[1]","u[1]","MUSS[1]","mUsS[1]sOLL[3]k", "Muss[2]", "X[2]"]:
        try:
            t = await pr(s)
            r = await evaluate_ahb_expression_tree(t)
            print("C09", s, "->", r.requirement_indicator, r.requirement_constraint_evaluation_result.requirement_constraints_fulfilled)
            try:
                d = AhbExpressionEvaluationResultSchema().dumps(r)
                r2 = AhbExpressionEvaluationResultSchema().loads(d)
                print("   C19 roundtrip equal:", r2 == r)
            except BaseException as e:
                print("   C19 roundtrip FAIL", type(e).__name__, str(e)[:150])
        except BaseException as e:
            print("C09", s, "RAISES", type(e).__name__, str(e)[:100])
    for s in ["[1] U [2]", "[1] O [501]", "Muss [1] O [501]", "Muss [1]U", "Muss [501] O [502]", "Muss [501]"]:
        try:
            print("C06 is_valid", repr(s), await is_valid_expression(s, lambda c: cv.set(c)))
        except BaseException as e:
            print("C06 is_valid", repr(s), "RAISES", type(e).__name__, str(e)[:100])
    print("C18 gen(0,0):", CategorizedKeyExtract(hint_keys=["501"],format_constraint_keys=[],requirement_constraint_keys=[],package_keys=[],time_condition_keys=[]).generate_possible_content_evaluation_results())
    print("C18 gen(1,1):", len(CategorizedKeyExtract(hint_keys=[],format_constraint_keys=["901"],requirement_constraint_keys=["1"],package_keys=[],time_condition_keys=[]).generate_possible_content_evaluation_results()))
asyncio.run(main())
