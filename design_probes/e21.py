import ahbicht.content_evaluation
import asyncio, random, sys, time, re
from ahbicht.expressions.condition_expression_parser import parse_condition_expression_to_tree as pc
from ahbicht.expressions.ahb_expression_parser import parse_ahb_expression_to_single_requirement_indicator_expressions as pa
from ahbicht.expressions.expression_resolver import parse_expression_including_unresolved_subexpressions as pr
exec(open("/tmp/exp/e2.py").read().split("def tokenize")[0].split("import random, sys, time")[1].replace("from ahbicht.expressions.condition_expression_parser import parse_condition_expression_to_tree as pc",""))
ACC,REJ,UNS="ACCEPT","REJECT","UNSPEC"
WSCH=" \t\f\r\n"
OPCH="UuOoXx∧∨⊻"
def lex(s):
    """returns list of tokens or None (lexical error). tokens: '(',')','op','atom'; flag unspecified corners"""
    i=0; out=[]; uns=False
    while i<len(s):
        c=s[i]
        if c in WSCH: i+=1; continue
        if c in "()": out.append(c); i+=1; continue
        if c in OPCH: out.append("op"); i+=1; continue
        if c=="[":
            j=s.find("]",i)
            if j<0: return None,False
            inner=s[i+1:j]
            toks=inner.split()  # split on python whitespace; stricter check below
            if any(ch.isspace() and ch not in WSCH for ch in inner): return None,False
            body="".join(toks)
            m=None
            if len(toks)==1 and re.fullmatch(r"[0-9]+",toks[0]):
                if toks[0].startswith("0"): uns=True
            elif len(toks)==1 and re.fullmatch(r"UB[123]",toks[0]): pass
            elif len(toks) in (1,2) and re.fullmatch(r"[0-9]+P",toks[0]) and (len(toks)==1 or re.fullmatch(r"[0-9]+\.\.[0-9]+",toks[1])):
                if toks[0].startswith("0") and len(toks[0])>2: uns=True
                if len(toks)==2:
                    a,b=toks[1].split("..")
                    if int(b)==0 or b.startswith("0"):
                        if int(b)==0: return None,False
                        uns=True
                    if int(a)>int(b) or (a.startswith("0") and len(a)>1): uns=True
            elif len(toks)==1 and re.fullmatch(r"[0-9]+P[0-9]+\.\.[0-9]+",toks[0]):
                k,rep=toks[0].split("P"); a,b=rep.split("..")
                if int(b)==0: return None,False
                if b.startswith("0") or int(a)>int(b) or (a.startswith("0") and len(a)>1) or (k.startswith("0") and len(k)>1): uns=True
            else: return None,False
            out.append("atom"); i=j+1; continue
        return None,False
    return out,uns
def cond_ok(s):
    toks,uns=lex(s)
    if toks is None: return REJ
    # grammar: E := T (op? T)*  ; T := atom | '(' E ')'
    pos=[0]
    def T():
        if pos[0]>=len(toks): return False
        t=toks[pos[0]]
        if t=="atom": pos[0]+=1; return True
        if t=="(":
            pos[0]+=1
            if not E(): return False
            if pos[0]<len(toks) and toks[pos[0]]==")": pos[0]+=1; return True
            return False
        return False
    def E():
        if not T(): return False
        while pos[0]<len(toks) and toks[pos[0]]!=")":
            if toks[pos[0]]=="op": pos[0]+=1
            if not T(): return False
        return True
    ok=E() and pos[0]==len(toks)
    if not ok: return REJ
    return UNS if uns else ACC
def real(f,s):
    try:
        r=f(s)
        if asyncio.iscoroutine(r): r=asyncio.run(r)
        return ACC
    except SyntaxError: return REJ
    except BaseException as e: return "EXC:"+type(e).__name__
ALPH=list("[]()UOXuox∧∨⊻0123456789P.B \t\n")+["[1]","[2]","[901]","[10P]","[UB1]","[3P0..1]","U","O"]
def mutate(s,rng):
    s=list(s)
    for _ in range(rng.randint(1,3)):
        r=rng.random(); i=rng.randrange(len(s)+1)
        if r<0.3 and s: del s[min(i,len(s)-1)]
        elif r<0.6: s.insert(i,rng.choice(ALPH))
        elif r<0.8 and s: s[min(i,len(s)-1)]=rng.choice(ALPH)
        elif len(s)>1:
            j=min(i,len(s)-2); s[j],s[j+1]=s[j+1],s[j]
    return "".join(s)
rng=random.Random(int(sys.argv[1])); n=int(sys.argv[2]); stat={}; bad=0; t0=time.time()
for i in range(n):
    r=rng.random()
    if r<0.25: s=gen_expr(rng,2)
    elif r<0.75: s=mutate(gen_expr(rng,rng.randint(0,2)),rng)
    else: s="".join(rng.choice(ALPH) for _ in range(rng.randint(0,12)))
    exp=cond_ok(s); got=real(pc,s)
    stat[(exp,got)]=stat.get((exp,got),0)+1
    if got.startswith("EXC") or (exp!=UNS and exp!=got):
        bad+=1
        if bad<25: print("DISAGREE",repr(s),"ref",exp,"real",got)
print(stat,"bad",bad,"t=%.1f"%(time.time()-t0))
