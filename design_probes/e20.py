import ahbicht.content_evaluation, itertools, operator
from ahbicht.models.condition_nodes import ConditionFulfilledValue as V
from ahbicht.models.categorized_key_extract import CategorizedKeyExtract
F,U,K,N=V.FULFILLED,V.UNFULFILLED,V.UNKNOWN,V.NEUTRAL
exec(open("/tmp/exp/e7_lib.py").read().split("# AST:")[0].split("F,U,K,N=V.FULFILLED,V.UNFULFILLED,V.UNKNOWN,V.NEUTRAL")[1])
ops={"and":(operator.and_,r_and),"or":(operator.or_,r_or),"xor":(operator.xor,r_xor)}
bad=0
for name,(op,ref) in ops.items():
    for a,b in itertools.product(V,repeat=2):
        r=op(a,b)
        if not isinstance(r,V) or r!=ref(a,b): bad+=1; print("table",name,a,b,r)
        if op(a,b)!=op(b,a): bad+=1; print("comm",name,a,b)
    for a,b,c in itertools.product(V,repeat=3):
        if op(op(a,b),c)!=op(a,op(b,c)): bad+=1; print("assoc",name,a,b,c)
    # unknown soundness/tightness for pairs
    for a,b in itertools.product([F,U,K],repeat=2):
        outs={op(x,y) for x in ([F,U] if a==K else [a]) for y in ([F,U] if b==K else [b])}
        r=op(a,b)
        if r!=K and outs!={r}: bad+=1; print("unsound",name,a,b,r,outs)
        if r==K and len(outs)<2: bad+=1; print("not tight",name,a,b,outs)
print("C03 bad",bad)
for m in range(0,5):
    for n in range(0,5):
        if m==n==0: continue
        ck=CategorizedKeyExtract(hint_keys=["501"],format_constraint_keys=[str(901+i) for i in range(n)],requirement_constraint_keys=[str(1+i) for i in range(m)],package_keys=[],time_condition_keys=[])
        res=ck.generate_possible_content_evaluation_results()
        sig={(tuple(sorted((k,str(v)) for k,v in r.requirement_constraints.items())),tuple(sorted((k,v.format_constraint_fulfilled) for k,v in r.format_constraints.items()))) for r in res}
        exp={(tuple(zip([str(1+i) for i in range(m)],map(str,rv))),tuple(zip([str(901+i) for i in range(n)],fv))) for rv in itertools.product([F,U,K],repeat=m) for fv in itertools.product([True,False],repeat=n)}
        if len(res)!=3**m*2**n or sig!=exp: print("C18 product mismatch",m,n,len(res),len(sig),len(exp))
print("C18 product ok")
