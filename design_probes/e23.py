import ahbicht.content_evaluation
import asyncio, inject, random, sys, time
from contextvars import ContextVar
from efoli import EdifactFormat, EdifactFormatVersion
from ahbicht.content_evaluation import is_valid_expression
from ahbicht.content_evaluation.evaluationdatatypes import EvaluatableData, EvaluatableDataProvider
from ahbicht.content_evaluation.evaluator_factory import create_content_evaluation_result_based_evaluators
from ahbicht.content_evaluation.token_logic_provider import SingletonTokenLogicProvider, TokenLogicProvider
from ahbicht.models.content_evaluation_result import ContentEvaluationResult, ContentEvaluationResultSchema
exec(open("/tmp/exp/e7_lib.py").read())
cv=ContextVar("cer",default=None)
def get_ed(): return EvaluatableData(body=ContentEvaluationResultSchema().dump(cv.get()), edifact_format=EdifactFormat.UTILMD, edifact_format_version=EdifactFormatVersion.FV2210)
def configure(binder):
    binder.bind(TokenLogicProvider, SingletonTokenLogicProvider([*create_content_evaluation_result_based_evaluators(EdifactFormat.UTILMD, EdifactFormatVersion.FV2210)]))
    binder.bind_to_provider(EvaluatableDataProvider, get_ed)
inject.configure_once(configure)
async def main():
    rng=random.Random(int(sys.argv[1])); n=int(sys.argv[2]); bad=0; t0=time.time(); st={True:0,False:0}; evals=0
    for i in range(n):
        parts=[]
        for _ in range(rng.randint(1,2)):
            while True:
                t=gen(rng,rng.randint(0,2))
                if t[0]!="fc" and len(keys(t,"rc",set()))+len(keys(t,"fc",set()))<=4: break
            parts.append(t)
        s=" ".join(rng.choice(["Muss","Soll","Kann"])+" "+render(t,rng) for t in parts) if len(parts)>1 or rng.random()<0.6 else "X "+render(parts[0],rng)
        exp=not any(structurally_invalid(t) for t in parts)
        try: got=await is_valid_expression(s, lambda c: cv.set(c))
        except BaseException as e: bad+=1; print("RAISES",s,type(e).__name__,str(e)[:100]); continue
        st[exp]+=1
        ok = (got==(True,None)) if exp else (got[0] is False and isinstance(got[1],str) and got[1])
        if not ok: bad+=1; print("MISMATCH",s,exp,got[0],str(got[1])[:80])
    print("done",n,"bad",bad,st,"t=%.1f"%(time.time()-t0))
asyncio.run(main())
