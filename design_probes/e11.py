import sys; sys.path.insert(0,"/tmp/exp/fx/src")
import ahbicht.content_evaluation
import asyncio, inject, random, sys, time, copy
from efoli import EdifactFormat, EdifactFormatVersion
from maus.models.anwendungshandbuch import AhbMetaInformation, DeepAnwendungshandbuch
from maus.models.edifact_components import *
from ahbicht.content_evaluation.evaluationdatatypes import EvaluatableData, EvaluatableDataProvider, EvaluationContext
from ahbicht.content_evaluation.rc_evaluators import RcEvaluator
from ahbicht.content_evaluation.fc_evaluators import FcEvaluator
from ahbicht.content_evaluation.token_logic_provider import SingletonTokenLogicProvider, TokenLogicProvider
from ahbicht.expressions.hints_provider import HintsProvider
from ahbicht.expressions.package_expansion import PackageResolver
from ahbicht.models.condition_nodes import ConditionFulfilledValue as V, EvaluatedFormatConstraint as EFC
from ahbicht.models.mapping_results import PackageKeyConditionExpressionMapping
from ahbicht.validation.validation import validate_deep_anwendungshandbuch
from ahbicht.models.validation_values import RequirementValidationValue as RV
exec(open("/tmp/exp/e7_lib.py").read())
exec(open("/tmp/exp/e8_lib.py").read())

# ---- AHB expression generation: list of parts (indicator, condAST or None)
MM={"MUSS":["Muss","M","muss","MUSS","m"],"SOLL":["Soll","S","soll","s"],"KANN":["Kann","K","kann","k"]}
def gen_ahb_expr(rng, allow_invalid=False):
    def cond():
        for _ in range(50):
            t=gen(rng,rng.randint(0,2))
            if t[0] in("fc",): continue
            if structurally_invalid(t)==False or allow_invalid: return t
    r=rng.random()
    if r<0.15: return [(rng.choice(["MUSS","SOLL","KANN","X"]),None)]
    if r<0.4: return [("X",cond())]
    n=rng.randint(1,3); parts=[(rng.choice(["MUSS","SOLL","KANN"]),cond()) for _ in range(n)]
    if rng.random()<0.3: parts.append((rng.choice(["MUSS","SOLL","KANN"]),None))
    return parts
def render_ahb(parts,rng):
    s=""
    for ind,c in parts:
        sp=rng.choice(MM[ind]) if ind in MM else "X"
        s+=sp+("" if c is None else rng.choice([""," "])+render(c,rng)+rng.choice([""," "]))
    return s
def ref_ahb(parts,asg):
    """returns (indicator, fulfilled(True/False/None)) or 'INVALID'"""
    res=[]
    for ind,c in parts:
        if c is None: res.append((ind,True)); continue
        if structurally_invalid(c): return "INVALID"
        st=ref_eval(c,asg); res.append((ind,{F:True,N:True,U:False,K:None}[st]))
    for r in res:
        if r[1]: return r
    return res[-1]
def ref_map(ind,ful,soll):
    if ind=="SOLL": ind="MUSS" if soll else "KANN"
    if ful is False: return "IS_FORBIDDEN"
    if ful is None:
        if ind in("MUSS","X"): raise NotImplementedError
        return "IS_OPTIONAL"
    return "IS_REQUIRED" if ind in("MUSS","X") else "IS_OPTIONAL"
def ref_comb(parent,child):
    if parent in(None,"IS_REQUIRED"): return child
    if child=="IS_REQUIRED": return "IS_OPTIONAL"
    return child
cnt=[0]
def gen_tree(rng, depth):
    def disc(p): cnt[0]+=1; return "%s%d"%(p,cnt[0])
    def de():
        if rng.random()<0.6:
            parts=gen_ahb_expr(rng, allow_invalid=rng.random()<0.15)
            return {"kind":"ft","disc":disc("D"),"parts":parts,"input":rng.choice([None,"","in%d"%cnt[0]])}
        n=rng.randint(1,4); ents=[{"q":"Q%d_%d"%(cnt[0],i),"parts":gen_ahb_expr(rng,allow_invalid=rng.random()<0.1)} for i in range(n)]
        return {"kind":"vp","disc":disc("P"),"entries":ents,"input":rng.choice([None,"",ents[0]["q"],ents[-1]["q"],"ZZZ"])}
    def seg(): return {"disc":disc("S"),"parts":gen_ahb_expr(rng,allow_invalid=rng.random()<0.1),"des":[de() for _ in range(rng.randint(0,3))]}
    def grp(d): return {"disc":disc("G"),"parts":gen_ahb_expr(rng,allow_invalid=rng.random()<0.1),"segs":[seg() for _ in range(rng.randint(0,3))],"grps":[grp(d-1) for _ in range(rng.randint(0,2) if d>0 else 0)]}
    return [grp(depth) for _ in range(rng.randint(1,3))]
def build(spec,rng):
    def mk_de(d):
        if d["kind"]=="ft": return DataElementFreeText(discriminator=d["disc"],ahb_expression=render_ahb(d["parts"],rng),entered_input=d["input"],data_element_id="1234")
        return DataElementValuePool(discriminator=d["disc"],data_element_id="0333",entered_input=d["input"],value_pool=[ValuePoolEntry(qualifier=e["q"],meaning="m"+e["q"],ahb_expression=render_ahb(e["parts"],rng)) for e in d["entries"]])
    def mk_seg(s): return Segment(discriminator=s["disc"],ahb_expression=render_ahb(s["parts"],rng),data_elements=[mk_de(d) for d in s["des"]])
    def mk_grp(g): return SegmentGroup(discriminator=g["disc"],ahb_expression=render_ahb(g["parts"],rng),segments=[mk_seg(s) for s in g["segs"]],segment_groups=[mk_grp(x) for x in g["grps"]])
    return DeepAnwendungshandbuch(meta=AhbMetaInformation(pruefidentifikator="12345"),lines=[mk_grp(g) for g in spec])
def ref_validate(spec,asg,soll):
    out=[]
    def level(parts,parent):
        r=ref_ahb(parts,asg)
        if r=="INVALID": return "IS_OPTIONAL"
        return ref_comb(parent,ref_map(r[0],r[1],soll))
    def de(d,segst):
        if d["kind"]=="ft":
            r=ref_ahb(d["parts"],asg)
            if r=="INVALID": out.append((d["disc"],"IS_OPTIONAL",None)); return
            st=ref_comb(segst,ref_map(r[0],r[1],soll))+("_AND_FILLED" if d["input"] else "_AND_EMPTY")
            out.append((d["disc"],st,None)); return
        offered=[]
        for e in d["entries"]:
            if len(d["entries"])==1: offered.append(e["q"]); continue
            r=ref_ahb(e["parts"],asg)
            if r=="INVALID" or r[1]: offered.append(e["q"])
        if not offered: st="IS_FORBIDDEN"
        elif d["input"] in offered: st="*_AND_FILLED"
        else: st="*_AND_EMPTY"
        out.append((d["disc"],st,offered))
    def seg(s,parent):
        st="IS_FORBIDDEN" if parent=="IS_FORBIDDEN" else level(s["parts"],parent)
        out.append((s["disc"],st,None))
        if st!="IS_FORBIDDEN":
            for d in s["des"]: de(d,st)
    def grp(g,parent):
        st="IS_FORBIDDEN" if parent=="IS_FORBIDDEN" else level(g["parts"],parent)
        out.append((g["disc"],st,None))
        if st!="IS_FORBIDDEN":
            for x in g["grps"]: grp(x,st)
            for s in g["segs"]: seg(s,st)
    for g in spec: grp(g,None)
    return out
ed=EvaluatableData(body={}, edifact_format=EdifactFormat.UTILMD, edifact_format_version=EdifactFormatVersion.FV2210)
def configure(binder):
    binder.bind(TokenLogicProvider, SingletonTokenLogicProvider([MyRc(),MyFc(),MyHints(),MyPkg()]))
    binder.bind_to_provider(EvaluatableDataProvider, lambda: ed)
inject.configure_once(configure)
HINTS.update({str(k):"H%d"%k for k in range(501,505)})
async def main():
    global SCHED
    rng=random.Random(int(sys.argv[1])); n=int(sys.argv[2]); bad=0; nodes=0; nie=0; t0=time.time()
    for i in range(n):
        spec=gen_tree(rng,rng.randint(0,2))
        asg={str(k):rng.choice([F,F,U,U,K] if rng.random()<0.3 else [F,U]) for k in range(1,7)}
        RC.clear(); RC.update(asg); FC.clear(); FC.update({str(k):EFC(rng.random()<0.5,None) for k in range(901,906)})
        for f in FC.values():
            if not f.format_constraint_fulfilled: f.error_message="bad"
        soll=rng.random()<0.5
        ahb=build(spec,rng)
        try: exp=ref_validate(spec,asg,soll)
        except NotImplementedError: exp="NIE"
        SCHED=Sched(random.Random(rng.random()))
        try:
            got=await SCHED.run(validate_deep_anwendungshandbuch(ahb,soll_is_required=soll))
        except NotImplementedError:
            got="NIE"
        except BaseException as e:
            got="EXC "+type(e).__name__+str(e)[:80]
        if exp=="NIE" or got=="NIE" or isinstance(got,str):
            nie+=1
            if exp!=got: bad+=1; print("MISMATCH exc",exp if isinstance(exp,str) else "list",got if isinstance(got,str) else "list")
            continue
        g2=[(x.discriminator,str(x.validation_result.requirement_validation),getattr(x.validation_result,"possible_values",None)) for x in got]
        nodes+=len(g2)
        if [a[0] for a in g2]!=[a[0] for a in exp]: bad+=1; print("ORDER",[a[0] for a in g2],[a[0] for a in exp]); continue
        for a,b in zip(g2,exp):
            ok = (a[1]==b[1]) or (b[1].startswith("*") and a[1].endswith(b[1][1:]))
            if b[2] is not None and list((a[2] or {}).keys())!=b[2]: ok=False
            if not ok:
                bad+=1
                if bad<15: print("STATUS",a,b,"soll",soll)
    print("done",n,"bad",bad,"nodes",nodes,"nie",nie,"t=%.1f"%(time.time()-t0))
asyncio.run(main())
