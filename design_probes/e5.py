import ahbicht.content_evaluation
from ahbicht.content_evaluation.german_strom_and_gas_tag import has_no_utc_offset, is_xtag_limit, parse_as_datetime
for s in ["2022-01-01T12:00:00+00:00","2022-01-01T12:00:00Z","2022-01-01T00:00:00+00:00", "2022-01-01T00:00:00.5+00:00","2022-01-01T00:00:00-00:00","2022-01-01T00:00:00+00:00:00"]:
    print("931", s, has_no_utc_offset(s))
for s in ["0001-01-01T00:00:00+01:00","0001-01-01T00:00:00+00:00","9999-12-31T23:59:59-01:00","9999-12-31T23:59:59+00:00","0001-01-01T00:30:00+00:00", "2022-03-27T00:00:00+01:00","2022-03-26T23:00:00Z","2022-10-30T00:00:00+02:00","2022-10-29T22:00:00+00:00", "20220101T000000+0100", "2022-01-01 00:00:00+01:00","2022-01-01T00:00+01:00","2022-01-01T00:00:00,000+01:00","2021-12-31T23:00:00.000001Z", "ZZ","2022-01-01T00:00:00ZZ", "2022-W01-1T00:00:00+01:00"]:
    for f,n in ((lambda x: is_xtag_limit(x,"Strom"),"932"),(lambda x: is_xtag_limit(x,"Gas"),"934"),(has_no_utc_offset,"931")):
        try:
            r=f(s); print(n, repr(s), r.format_constraint_fulfilled, (r.error_message or "")[:60])
        except BaseException as e:
            print(n, repr(s), "RAISES", type(e).__name__, e)
