import asyncio, traceback
import ahbicht.content_evaluation
from ahbicht.expressions.condition_expression_parser import parse_condition_expression_to_tree as pc
from ahbicht.expressions.ahb_expression_parser import parse_ahb_expression_to_single_requirement_indicator_expressions as pa
from ahbicht.expressions.expression_resolver import parse_expression_including_unresolved_subexpressions as pr
import lark, inspect
print("lark", lark.__version__)
print(inspect.getsource(lark.Tree.copy))
# C11 shallow copy
t = pc("[1]U[2]")
t.children.append("X")
t2 = pc("[1]U[2]")
print("C11 after append:", t2)
t2.children.pop()
t3 = pc("[1]U[2]O[3]")
print(t3)
t3.children[0].children[0] = "mutated"
print("C11 deep:", pc("[1]U[2]O[3]"))
# C02 resolver with malformed condition part
for s in ["Muss [1]U", "Muss [1](", "Muss   ", "X [", "Muss [1] Soll [2]U", "foo", "Muss[1]U[2", "M[0]"]:
    try:
        r = asyncio.run(pr(s))
        print("C02 accepted", repr(s), r)
    except SyntaxError as e:
        print("C02 SyntaxError", repr(s))
    except BaseException as e:
        print("C02 OTHER", repr(s), type(e), str(e)[:80])
