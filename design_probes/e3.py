import ahbicht.content_evaluation
from ahbicht.expressions.condition_expression_parser import parse_condition_expression_to_tree as pc
def show(t):
    n={"or_composition":"O","xor_composition":"X","and_composition":"U","then_also_composition":"."}
    if t.data in n: return "("+show(t.children[0])+n[t.data]+show(t.children[1])+")"
    return "".join(str(c) for c in t.children)
for s in ["[1]U[2]U[3]","[1]U[2]U[3]U[4]","[1]O[2]O[3]O[4]","[1]O[2]∨[3]O[4]","[1]X[2]X[3]","[1][901][902]","[1]U[2]O[3]U[4]O[5]","([1])U[2]U[3]","[1]U[2]∧[3]u[4]", "[1]O[2]U[3]O[4]U[5]U[6]O[7]"]:
    print(s, "=>", show(pc(s)))
