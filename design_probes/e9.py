import ahbicht.content_evaluation, time, sys
from ahbicht.expressions.condition_expression_parser import parse_condition_expression_to_tree as pc
from ahbicht.expressions.ahb_expression_parser import parse_ahb_expression_to_single_requirement_indicator_expressions as pa
def t(label, s, f=pc):
    t0=time.time()
    try:
        f(s); r="ok"
    except SyntaxError: r="SyntaxError"
    except BaseException as e: r="OTHER "+type(e).__name__+" "+str(e)[:60]
    print(label, len(s), r, "%.2fs"%(time.time()-t0)); sys.stdout.flush()
for d in (50,200,400):
    t("nest%d"%d, "("*d+"[1]"+")"*d)
for n in (50,200):
    t("chainU%d"%n, "U".join("[%d]"%i for i in range(1,n+1)))
    t("chainmix%d"%n, "".join("[%d]%s"%(i,"UOX"[i%3]) for i in range(1,n))+"[1]")
t("unbalanced", "("*300+"[1]")
t("nul", "[1]\x00")
t("ahb nest", "Muss"+"("*200+"[1]"+")"*200, pa)
t("surrogate", "[1]\ud800")
t("empty", "")
t("ws", "   ")
for s in ["[1 P]","[1P 0..1]","[ 1 ]","[1]\v[2]","[1] U[2]","[UB 1]","[ub1]","[1p]","[1P0..0]","[1P0..01]","[01]","[1P00..1]","[1]U\n[2]","[1]\x0cU[2]", "[١]", "[1]U[２]"]:
    t(repr(s), s)
