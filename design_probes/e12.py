import ahbicht.content_evaluation
import asyncio, inject, random, sys, time, re
from efoli import EdifactFormat, EdifactFormatVersion
from lark import Tree, Token
from ahbicht.content_evaluation.evaluationdatatypes import EvaluatableData, EvaluatableDataProvider, EvaluationContext
from ahbicht.content_evaluation.rc_evaluators import RcEvaluator
from ahbicht.content_evaluation.fc_evaluators import FcEvaluator
from ahbicht.content_evaluation.token_logic_provider import SingletonTokenLogicProvider, TokenLogicProvider
from ahbicht.expressions.hints_provider import HintsProvider
from ahbicht.expressions.package_expansion import PackageResolver
from ahbicht.expressions.expression_resolver import parse_expression_including_unresolved_subexpressions as pr
from ahbicht.expressions.condition_expression_parser import extract_categorized_keys
from ahbicht.models.condition_nodes import ConditionFulfilledValue as V, EvaluatedFormatConstraint as EFC
from ahbicht.models.mapping_results import PackageKeyConditionExpressionMapping
exec(open("/tmp/exp/e8_lib.py").read())
exec(open("/tmp/exp/e2.py").read().split("def tokenize")[0].split("import random, sys, time")[1].replace("from ahbicht.expressions.condition_expression_parser import parse_condition_expression_to_tree as pc",""))
ed=EvaluatableData(body={}, edifact_format=EdifactFormat.UTILMD, edifact_format_version=EdifactFormatVersion.FV2210)
def configure(binder):
    binder.bind(TokenLogicProvider, SingletonTokenLogicProvider([MyRc(),MyFc(),MyHints(),MyPkg()]))
    binder.bind_to_provider(EvaluatableDataProvider, lambda: ed)
inject.configure_once(configure)
def canon(t):
    if isinstance(t,Tree): return (str(t.data),tuple(canon(c) for c in t.children))
    if isinstance(t,Token): return ("T",t.type,str(t))
    return ("?",repr(t))
UB={"UB1":"[932]","UB2":"[934]","UB3":"([932][492]X[934][493])"}
def subst(s, tbl, ub=True):
    def rp(m):
        k=m.group(1)
        if k not in tbl or tbl[k] is None: raise KeyError(k)
        return "("+tbl[k]+")"
    s=re.sub(r"\[\s*(\d+P)\s*(?:\d+\.\.\d+)?\s*\]", rp, s)
    if ub: s=re.sub(r"\[\s*(UB[123])\s*\]", lambda m: UB[m.group(1)], s)
    return s
async def main():
    global SCHED
    rng=random.Random(int(sys.argv[1])); n=int(sys.argv[2]); bad=0; unknown=0; t0=time.time()
    for i in range(n):
        tbl={"%dP"%k: (gen_expr(rng,1) if rng.random()<0.9 else None) for k in range(1,100) if rng.random()<0.97}
        s=gen_expr(rng,2)
        r=rng.random()
        if r<0.25: s="X"+s
        elif r<0.6: s=rng.choice(["Muss","m","Soll"])+s+(rng.choice(["Kann"+gen_expr(rng,1),"K",""]))
        PKG.clear(); PKG.update({k:v for k,v in tbl.items()})
        SCHED=Sched(random.Random(i))
        try: exp_s=subst(s,tbl)
        except KeyError: exp_s=None
        try:
            got=await SCHED.run(pr(s,resolve_packages=True,replace_time_conditions=True))
        except NotImplementedError: got="NIE"
        except BaseException as e: got="EXC "+type(e).__name__+" "+str(e)[:100]
        if exp_s is None:
            unknown+=1
            if got!="NIE": bad+=1; print("expected NIE",s,got)
            continue
        if isinstance(got,str): bad+=1; print("unexpected",got,s); continue
        SCHED=Sched(None,enabled=False)
        exp=await pr(exp_s,resolve_packages=False,replace_time_conditions=False)
        if canon(exp)!=canon(got):
            bad+=1
            if bad<5: print("MISMATCH",s,"\n  ",exp_s,"\n ",got,"\n ",exp)
    print("done",n,"bad",bad,"unknown",unknown,"t=%.1f"%(time.time()-t0))
asyncio.run(main())
