import ahbicht.content_evaluation
import asyncio, inject, random, sys, time
from efoli import EdifactFormat, EdifactFormatVersion
from maus.models.anwendungshandbuch import AhbMetaInformation, DeepAnwendungshandbuch
from maus.models.edifact_components import *
from ahbicht.content_evaluation.evaluationdatatypes import EvaluatableData, EvaluatableDataProvider, EvaluationContext
from ahbicht.content_evaluation.rc_evaluators import RcEvaluator
from ahbicht.content_evaluation.fc_evaluators import FcEvaluator, text_to_be_evaluated_by_format_constraint as CV
from ahbicht.content_evaluation.token_logic_provider import SingletonTokenLogicProvider, TokenLogicProvider
from ahbicht.expressions.hints_provider import HintsProvider
from ahbicht.expressions.package_expansion import PackageResolver
from ahbicht.models.condition_nodes import ConditionFulfilledValue as V, EvaluatedFormatConstraint as EFC
from ahbicht.models.mapping_results import PackageKeyConditionExpressionMapping
from ahbicht.validation.validation import validate_deep_anwendungshandbuch, validate_data_element_freetext
from ahbicht.models.validation_values import RequirementValidationValue as RV
exec(open("/tmp/exp/e8_lib.py").read())
OWNER={}; EVENTS=[]; VIOL=[]
def pred(key,text): return (hash((key,text))&1)==0 if text else False
class MyFc2(FcEvaluator):
    edifact_format=EdifactFormat.UTILMD; edifact_format_version=EdifactFormatVersion.FV2210
def mk(key):
    async def ev(self, entered_input):
        before=entered_input
        await SCHED.point(("fc",key))
        after=CV.get()
        EVENTS.append((key,before,after))
        if key in OWNER and (before!=OWNER[key] or after!=OWNER[key]): VIOL.append((key,before,after,OWNER[key]))
        return EFC(pred(key,before), None)
    return ev
for k in range(901,1000):
    if 931<=k<=935: continue
    setattr(MyFc2,"evaluate_%d"%k,mk(str(k)))
ed=EvaluatableData(body={}, edifact_format=EdifactFormat.UTILMD, edifact_format_version=EdifactFormatVersion.FV2210)
def configure(binder):
    binder.bind(TokenLogicProvider, SingletonTokenLogicProvider([MyRc(),MyFc2(),MyHints(),MyPkg()]))
    binder.bind_to_provider(EvaluatableDataProvider, lambda: ed)
inject.configure_once(configure)
RC.update({"1":V.FULFILLED,"2":V.FULFILLED,"3":V.UNFULFILLED})
async def main():
    global SCHED
    rng=random.Random(int(sys.argv[1])); n=int(sys.argv[2]); bad=0; t0=time.time(); els=0
    for i in range(n):
        OWNER.clear(); EVENTS.clear()
        keys=[str(k) for k in range(901,1000) if not 931<=k<=935]; rng.shuffle(keys)
        des=[]; groups=[]
        cnt=0
        def de():
            nonlocal cnt
            cnt+=1; ks=[keys.pop() for _ in range(rng.randint(1,3))]; inp=rng.choice([None,"","in%d"%cnt,"in%d"%cnt])
            for k in ks: OWNER[k]=inp
            e=" U ".join("[%s]"%k for k in ks) if rng.random()<0.5 else "([%s])"%("] O [".join(ks))
            d=DataElementFreeText(discriminator="D%d"%cnt,ahb_expression=rng.choice(["Muss [1]","X [2]","Muss [1] U [2]"])+"("+e+")" if rng.random()<0.0 else "Muss [1] U "+("("+e+")"),entered_input=inp,data_element_id="1234")
            des.append(d); return d
        def seg(j): return Segment(discriminator="S%d_%d"%(i,j),ahb_expression="Muss[1]",data_elements=[de() for _ in range(rng.randint(1,4))])
        ahb=DeepAnwendungshandbuch(meta=AhbMetaInformation(pruefidentifikator="12345"),lines=[SegmentGroup(discriminator="G%d"%g,ahb_expression="X",segments=[seg(g*10+j) for j in range(rng.randint(1,3))],segment_groups=[]) for g in range(rng.randint(1,3))])
        SCHED=Sched(random.Random(i))
        res=await SCHED.run(validate_deep_anwendungshandbuch(ahb))
        byd={r.discriminator:r.validation_result for r in res}
        SCHED=Sched(None,enabled=False)
        for d in des:
            els+=1
            alone=(await validate_data_element_freetext(d, RV.IS_REQUIRED)).validation_result
            if alone!=byd[d.discriminator]: bad+=1; print("DIFF",d.discriminator,alone,byd[d.discriminator])
    print("done",n,"elements",els,"fc events",len(EVENTS),"(last tree)","violations",len(VIOL),"bad",bad,"t=%.1f"%(time.time()-t0))
asyncio.run(main())
