import ahbicht.content_evaluation
import random, sys, time
from lark import Tree, Token
from ahbicht.expressions.condition_expression_parser import parse_condition_expression_to_tree as pc

# reference: precedence climbing producing a canonical form where same-operator runs are flattened
OPS = {"O":"or","o":"or","∨":"or","X":"xor","x":"xor","⊻":"xor","U":"and","u":"and","∧":"and"}
PREC = {"or":1,"xor":2,"and":3,"then":4}

def gen_atom(rng, depth):
    r = rng.random()
    if depth>0 and r<0.3:
        return "("+gen_expr(rng, depth-1)+")"
    r = rng.random()
    if r<0.7: return "[%d]"%rng.randint(1,999)
    if r<0.8: return "[%dP]"%rng.randint(1,99)
    if r<0.9: return (lambda a: "[%dP%d..%d]"%(rng.randint(1,99),a,a+rng.randint(0,5) or 1))(rng.randint(0,3))
    return "[UB%d]"%rng.randint(1,3)

def gen_expr(rng, depth):
    n = rng.randint(1,6)
    parts=[gen_atom(rng,depth)]
    for _ in range(n-1):
        op = rng.choice(["O","o","∨","X","x","⊻","U","u","∧","", ""])
        ws = rng.choice([""," ","  ","\t"])
        parts.append(ws+op+rng.choice([""," "]))
        parts.append(gen_atom(rng,depth))
    return "".join(parts)

def tokenize(s):
    i=0; out=[]
    while i<len(s):
        c=s[i]
        if c.isspace(): i+=1; continue
        if c=="[":
            j=s.index("]",i); out.append(("atom",s[i+1:j].replace(" ",""))); i=j+1; continue
        if c in "()": out.append((c,c)); i+=1; continue
        if c in OPS: out.append(("op",OPS[c])); i+=1; continue
        raise ValueError(c)
    return out

def ref_parse(tokens):
    pos=[0]
    def peek(): return tokens[pos[0]] if pos[0]<len(tokens) else None
    def atom():
        t=peek()
        if t[0]=="(":
            pos[0]+=1; e=expr(1); assert peek()[0]==")"; pos[0]+=1; return e
        pos[0]+=1; return ("atom",t[1])
    def expr(minp):
        left=atom() if minp>4 else expr(minp+1)
        while True:
            t=peek()
            if t is None or t[0]==")": return left
            if t[0]=="op": name=t[1]
            else: name="then"
            if PREC[name]!=minp: return left
            if t[0]=="op": pos[0]+=1
            right=expr(minp+1)
            left=flat(name,left,right)
    def flat(name,l,r):
        items=[]
        for x in (l,r):
            if x[0]==name: items.extend(x[1])
            else: items.append(x)
        return (name,tuple(items))
    e=expr(1); assert pos[0]==len(tokens); return e

NAMES={"or_composition":"or","xor_composition":"xor","and_composition":"and","then_also_composition":"then"}
def canon(t):
    if t.data in NAMES:
        n=NAMES[t.data]; items=[]
        for c in t.children:
            cc=canon(c)
            if cc[0]==n: items.extend(cc[1])
            else: items.append(cc)
        return (n,tuple(items))
    return ("atom","".join(str(c) for c in t.children))

rng=random.Random(int(sys.argv[1]) if len(sys.argv)>1 else 0)
N=int(sys.argv[2]) if len(sys.argv)>2 else 2000
bad=0; t0=time.time(); shapes=set()
for i in range(N):
    s=gen_expr(rng,2)
    ref=ref_parse(tokenize(s))
    try:
        got=canon(pc(s))
    except SyntaxError as e:
        print("SYNTAXERR",repr(s)); bad+=1; continue
    if got!=ref:
        bad+=1
        if bad<10: print("MISMATCH",repr(s),"\n  ref",ref,"\n  got",got)
print("done",N,"bad",bad,"time",time.time()-t0)
