class Sched:
    """user-supplied awaitables park here; a driver task releases them one at a time in a seeded random order, only when the loop is otherwise quiescent"""
    def __init__(self, rng, enabled=True):
        self.rng=rng; self.enabled=enabled; self.pending=[]; self.order=[]; self.registered=0
    async def point(self,label):
        if not self.enabled: return
        fut=asyncio.get_running_loop().create_future()
        self.pending.append((label,fut)); self.registered+=1
        await fut
    async def drive(self, main_task):
        idle=0
        while not main_task.done():
            before=self.registered
            await asyncio.sleep(0)
            if self.registered!=before: idle=0; continue
            idle+=1
            if idle<3: continue   # let chains of call_soon settle
            idle=0
            if self.pending:
                i=self.rng.randrange(len(self.pending))
                label,fut=self.pending.pop(i); self.order.append(label); fut.set_result(None)
        return
    async def run(self, coro):
        main=asyncio.ensure_future(coro)
        await self.drive(main)
        return await main

SCHED=None
RC={}; HINTS={}; PKG={}; FC={}
class MyRc(RcEvaluator):
    edifact_format=EdifactFormat.UTILMD; edifact_format_version=EdifactFormatVersion.FV2210
    def _get_default_context(self): return EvaluationContext(scope=None)
    async def evaluate_single_condition(self, condition_key, evaluatable_data, context=None):
        await SCHED.point(("rc",condition_key)); return RC[condition_key]
class MyFc(FcEvaluator):
    edifact_format=EdifactFormat.UTILMD; edifact_format_version=EdifactFormatVersion.FV2210
    async def evaluate_single_format_constraint(self, condition_key):
        await SCHED.point(("fc",condition_key)); return FC[condition_key]
class MyHints(HintsProvider):
    edifact_format=EdifactFormat.UTILMD; edifact_format_version=EdifactFormatVersion.FV2210
    async def get_hint_text(self, condition_key):
        await SCHED.point(("hint",condition_key)); return HINTS.get(condition_key)
class MyPkg(PackageResolver):
    edifact_format=EdifactFormat.UTILMD; edifact_format_version=EdifactFormatVersion.FV2210
    async def get_condition_expression(self, package_key):
        await SCHED.point(("pkg",package_key))
        return PackageKeyConditionExpressionMapping(package_key=package_key, package_expression=PKG.get(package_key), edifact_format=EdifactFormat.UTILMD)
