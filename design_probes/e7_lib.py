import itertools,re
from ahbicht.models.condition_nodes import *
V=ConditionFulfilledValue
F,U,K,N=V.FULFILLED,V.UNFULFILLED,V.UNKNOWN,V.NEUTRAL
# hand-written reference tables
def r_and(a,b):
    if a==N: return b
    if b==N: return a
    if U in (a,b): return U
    if K in (a,b): return K
    return F
def r_or(a,b):
    if a==N: return b
    if b==N: return a
    if F in (a,b): return F
    if K in (a,b): return K
    return U
def r_xor(a,b):
    if a==N: return b
    if b==N: return a
    if K in (a,b): return K
    return F if (a==F)!=(b==F) else U

# AST: ("rc",k) ("hint",k) ("fc",k) ("and",l,r) ("or",l,r) ("xor",l,r) ("then",operand,fc_key, fc_left:bool)
def has_rc(t):
    if t[0]=="rc": return True
    if t[0] in("hint","fc"): return False
    if t[0]=="then": return has_rc(t[1])
    return has_rc(t[1]) or has_rc(t[2])
def gen(rng, depth, need_rc=False):
    if depth==0 or rng.random()<0.25:
        r=rng.random()
        if need_rc or r<0.55: base=("rc",str(rng.randint(1,6)))
        elif r<0.8: base=("hint",str(rng.randint(501,504)))
        else: return ("fc",str(rng.randint(901,905)))
        if rng.random()<0.3: return ("then",base,str(rng.randint(901,905)),rng.random()<0.3)
        return base
    op=rng.choice(["and","and","or","xor"])
    l=gen(rng,depth-1); r=gen(rng,depth-1)
    t=(op,l,r)
    if has_rc(t) and rng.random()<0.2:
        return ("then",t,str(rng.randint(901,905)),rng.random()<0.3)
    return t
SP={"and":["U","u","∧"],"or":["O","o","∨"],"xor":["X","x","⊻"]}
PREC={"or":1,"xor":2,"and":3,"then":4,"rc":5,"hint":5,"fc":5}
def render(t,rng,parent=0, side=None):
    k=t[0]
    if k in("rc","hint","fc"): s="[%s]"%t[1]
    elif k=="then":
        a=render(t[1],rng,4,"l"); f="[%s]"%t[2]
        s=(f+a) if t[3] else (a+f)
    else:
        s=render(t[1],rng,PREC[k],"l")+rng.choice([""," "])+rng.choice(SP[k])+rng.choice([""," "])+render(t[2],rng,PREC[k],"r")
    if PREC[k]<parent or (PREC[k]==parent and k not in("rc","hint","fc")) or rng.random()<0.1:
        s="("+s+")"
    return s
def structurally_invalid(t):
    k=t[0]
    if k in("rc","hint","fc"): return False
    if k=="then": return structurally_invalid(t[1])
    if structurally_invalid(t[1]) or structurally_invalid(t[2]): return True
    if k in("or","xor"):
        if has_rc(t[1])!=has_rc(t[2]): return True
        if {t[1][0],t[2][0]}=={"hint","fc"}: return True
    return False
def ref_eval(t,asg):
    k=t[0]
    if k=="rc": return asg[t[1]]
    if k in("hint","fc"): return N
    if k=="then": return ref_eval(t[1],asg)
    a=ref_eval(t[1],asg); b=ref_eval(t[2],asg)
    return {"and":r_and,"or":r_or,"xor":r_xor}[k](a,b)
# fc collection reference -> boolean AST over fc keys or None ; 'alt' variant handles the silent corner
def ref_fc(t,asg):
    k=t[0]
    if k=="fc": return ("k",t[1])
    if k in("rc","hint"): return None
    if k=="then":
        st=ref_eval(t[1],asg)
        if st==F or t[1][0]=="hint":
            inner=ref_fc(t[1],asg)
            return ("k",t[2]) if inner is None else ("and",("k",t[2]),inner)
        return None
    a=ref_fc(t[1],asg); b=ref_fc(t[2],asg)
    if a is None: return b
    if b is None: return a
    return (k,a,b)
def beval(e,fa):
    if e[0]=="k": return fa[e[1]]
    a=beval(e[1],fa); b=beval(e[2],fa)
    return {"and":a and b,"or":a or b,"xor":a!=b}[e[0]]
def keys(t,kind,acc):
    if t[0]==kind: acc.add(t[1])
    elif t[0]=="then": keys(t[1],kind,acc); (kind=="fc" and acc.add(t[2]))
    elif t[0] in("and","or","xor"): keys(t[1],kind,acc); keys(t[2],kind,acc)
    return acc
